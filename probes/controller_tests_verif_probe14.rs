//! replay (C16/C15): an output received into a named destination account that is not the wallet's active account is stored
//! under that account (root_key_id) but with a key derived under the ACTIVE account's path (next_child uses
//! w.parent_key_id()); a wallet restored from the seed would assign it to the other account.
#[macro_use]
extern crate log;
extern crate grin_wallet_controller as wallet;
extern crate grin_wallet_impls as impls;

use grin_core as core;
use grin_wallet_libwallet as libwallet;
use impls::test_framework::{self, LocalWalletClient};
use libwallet::InitTxArgs;
use std::thread;

#[macro_use]
mod common;
use common::{clean_output_dir, create_wallet_proxy, setup};

fn probe14_impl(test_dir: &'static str) -> Result<usize, libwallet::Error> {
	let mut wallet_proxy = create_wallet_proxy(test_dir);
	let chain = wallet_proxy.chain.clone();
	create_wallet_and_add!(client1, wallet1, mask1_i, test_dir, "wallet1", None, &mut wallet_proxy, false);
	let mask1 = (&mask1_i).as_ref();
	create_wallet_and_add!(client2, wallet2, mask2_i, test_dir, "wallet2", None, &mut wallet_proxy, false);
	let mask2 = (&mask2_i).as_ref();
	thread::spawn(move || {
		if let Err(e) = wallet_proxy.run() {
			error!("Wallet Proxy error: {}", e);
		}
	});
	let reward = core::consensus::REWARD;
	let _ = test_framework::award_blocks_to_wallet(&chain, wallet1.clone(), mask1, 5, false);
	wallet::controller::owner_single_use(Some(wallet2.clone()), mask2, None, |api, m| {
		api.create_account_path(m, "listener")?;
		Ok(())
	}).unwrap();

	// wallet1 sends; wallet2 (active account: default) receives into its account "listener"
	let mut slate = libwallet::Slate::blank(2, false);
	wallet::controller::owner_single_use(Some(wallet1.clone()), mask1, None, |api, m| {
		let args = InitTxArgs { src_acct_name: None, amount: reward, minimum_confirmations: 2, max_outputs: 500, num_change_outputs: 1,
			selection_strategy_is_use_all: false, ..Default::default() };
		slate = api.init_send_tx(m, args)?;
		Ok(())
	}).unwrap();
	wallet::controller::foreign_single_use(wallet2.clone(), mask2_i.clone(), |api| {
		slate = api.receive_tx(&slate, Some("listener"), None)?;
		Ok(())
	}).unwrap();

	// look at the record stored for the listener account
	{
		wallet_inst!(wallet2, w);
		w.set_parent_key_id_by_name("listener")?;
	}
	let mut mismatches = 0;
	wallet::controller::owner_single_use(Some(wallet2.clone()), mask2, None, |api, m| {
		let (_, outputs) = api.retrieve_outputs(m, true, false, None)?;
		for o in outputs.iter() {
			let under = o.output.key_id.parent_path();
			println!("PROBE14 listener record: root_key_id={} key_id={} key's account path={}", o.output.root_key_id, o.output.key_id, under);
			if under != o.output.root_key_id { mismatches += 1; }
		}
		assert_eq!(outputs.len(), 1);
		Ok(())
	}).unwrap();
	Ok(mismatches)
}

#[test]
fn verif_probe14() {
	let test_dir = "test_output/verif_probe14";
	setup(test_dir);
	let mismatches = probe14_impl(test_dir).unwrap();
	println!("PROBE14 records whose key lies under another account than the one they are stored in: {}", mismatches);
	assert_eq!(mismatches, 0, "received output's key was derived under the active account, not the destination account");
	clean_output_dir(test_dir);
}
