// C08 replay: V4 JSON vs V4 binary for a slate with kernel feature 3 (NRD) and its argument
use grin_wallet_libwallet::slate_versions::v4::{SlateV4, KernelFeaturesArgsV4};
use grin_wallet_libwallet::slate_versions::v4_bin::SlateV4Bin;
use grin_wallet_libwallet::Slate;
use grin_core::global::{set_local_chain_type, ChainTypes};

#[test]
fn verif_probe6() {
	set_local_chain_type(ChainTypes::AutomatedTesting);
	for feat in [0u8, 2, 3] {
		let slate0 = Slate::blank(2, false);
		let mut v4 = SlateV4::from(&slate0);
		v4.feat = feat;
		v4.feat_args = if feat == 0 { None } else { Some(KernelFeaturesArgsV4 { lock_hgt: 77 }) };
		let slate = Slate::from(v4.clone());
		// JSON
		let json = serde_json::to_string(&v4).unwrap();
		let v4_json: SlateV4 = serde_json::from_str(&json).unwrap();
		let s_json = Slate::from(v4_json);
		// binary
		let mut vec = vec![];
		grin_core::ser::serialize(&mut vec, grin_core::ser::ProtocolVersion(4), &SlateV4Bin(v4.clone())).unwrap();
		let b: SlateV4Bin = grin_core::ser::deserialize(&mut &vec[..], grin_core::ser::ProtocolVersion(4), grin_core::ser::DeserializationMode::default()).unwrap();
		let s_bin = Slate::from(b.0);
		println!("PROBE feat={} original args={:?} json args={:?} binary args={:?} equal={}", feat,
			slate.kernel_features_args.as_ref().map(|a| a.lock_height),
			s_json.kernel_features_args.as_ref().map(|a| a.lock_height),
			s_bin.kernel_features_args.as_ref().map(|a| a.lock_height),
			s_json.kernel_features_args.as_ref().map(|a| a.lock_height) == s_bin.kernel_features_args.as_ref().map(|a| a.lock_height));
		let k = s_bin.tx.as_ref().map(|t| format!("{:?}", t.kernels()[0].features));
		println!("PROBE feat={} rebuilt tx kernel features (binary) = {:?}", feat, k);
	}
}
