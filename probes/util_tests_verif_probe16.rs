// C09 replay: OnionV3Address::try_from(&str) on a 56-character base32 text whose last block is padded:
// it decodes to fewer than 32 bytes and `retval.0.copy_from_slice(&address[0..32])` is reached
use grin_wallet_util::OnionV3Address;
use std::convert::TryFrom;

#[test]
fn verif_probe16() {
	for s in [
		format!("{}======", "A".repeat(50)),
		format!("{}=", "A".repeat(55)),
		format!("http://{}======.onion", "a".repeat(50)),
	] {
		let t = s.clone();
		let r = std::panic::catch_unwind(move || OnionV3Address::try_from(t.as_str()).map(|_| ()));
		println!(
			"PROBE OnionV3Address::try_from({:?}): {}",
			s,
			match &r {
				Ok(Ok(_)) => "Ok".to_string(),
				Ok(Err(e)) => format!("Err({})", e),
				Err(_) => "PANIC".to_string(),
			}
		);
	}
}
