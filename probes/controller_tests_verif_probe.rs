//! replay of failing inputs for obligations refuted by the contract checks (original snapshot)
#[macro_use]
extern crate log;
extern crate grin_wallet_controller as wallet;
extern crate grin_wallet_impls as impls;

use grin_core as core;
use grin_wallet_libwallet as libwallet;
use impls::test_framework::{self, LocalWalletClient};
use libwallet::{BlockFees, InitTxArgs};
use std::panic::{catch_unwind, AssertUnwindSafe};
use std::thread;

#[macro_use]
mod common;
use common::{clean_output_dir, create_wallet_proxy, setup};

#[test]
fn verif_probe() {
	let test_dir = "test_output/verif_probe";
	setup(test_dir);
	let mut wallet_proxy = create_wallet_proxy(test_dir);
	let chain = wallet_proxy.chain.clone();
	create_wallet_and_add!(client1, wallet1, mask1_i, test_dir, "wallet1", None, &mut wallet_proxy, false);
	let mask1 = (&mask1_i).as_ref();
	thread::spawn(move || {
		if let Err(e) = wallet_proxy.run() {
			error!("Wallet Proxy error: {}", e);
		}
	});
	let _ = test_framework::award_blocks_to_wallet(&chain, wallet1.clone(), mask1, 30, false);

	// (1) ttl_blocks near u64::MAX
	let r = catch_unwind(AssertUnwindSafe(|| {
		wallet::controller::owner_single_use(Some(wallet1.clone()), mask1, None, |api, m| {
			let args = InitTxArgs { src_acct_name: None, amount: 1_000_000_000, minimum_confirmations: 1, max_outputs: 500, num_change_outputs: 1,
				selection_strategy_is_use_all: false, ttl_blocks: Some(u64::MAX - 3), ..Default::default() };
			let r = api.init_send_tx(m, args);
			println!("PROBE ttl: returned {:?}", r.is_ok());
			Ok(())
		})
	}));
	println!("PROBE ttl_blocks=u64::MAX-3: panicked={}", r.is_err());

	// (2) foreign build_coinbase with height u64::MAX
	let r = catch_unwind(AssertUnwindSafe(|| {
		wallet::controller::foreign_single_use(wallet1.clone(), mask1_i.clone(), |api| {
			let r = api.build_coinbase(&BlockFees { fees: 0, height: u64::MAX, key_id: None });
			println!("PROBE coinbase: returned ok={}", r.is_ok());
			Ok(())
		})
	}));
	println!("PROBE build_coinbase height=u64::MAX: panicked={}", r.is_err());

	// (3) fee above the 40-bit fee field: large accept_fee_base (wallet config parameter)
	core::global::set_local_accept_fee_base(18_000_000_000);
	let r = catch_unwind(AssertUnwindSafe(|| {
		wallet::controller::owner_single_use(Some(wallet1.clone()), mask1, None, |api, m| {
			let args = InitTxArgs { src_acct_name: None, amount: 1_000_000_000, minimum_confirmations: 1, max_outputs: 500, num_change_outputs: 1,
				selection_strategy_is_use_all: false, ..Default::default() };
			let r = api.init_send_tx(m, args);
			println!("PROBE fee: returned ok={} err={:?}", r.is_ok(), r.err());
			Ok(())
		})
	}));
	println!("PROBE fee > 2^40-1: panicked={}", r.is_err());
	core::global::set_local_accept_fee_base(500_000);
	clean_output_dir(test_dir);
}
