//! replay (C01/C03): a LATE-LOCKED send with an explicit `src_acct_name` that differs from the wallet's active account:
//! finalize_tx selects and reserves its inputs from the ACTIVE account (w.parent_key_id()) instead of the source account
//! recorded in the stored context.
#[macro_use]
extern crate log;
extern crate grin_wallet_controller as wallet;
extern crate grin_wallet_impls as impls;

use grin_core as core;

use grin_wallet_libwallet as libwallet;
use impls::test_framework::{self, LocalWalletClient};
use libwallet::{InitTxArgs, OutputStatus};
use std::sync::atomic::Ordering;
use std::thread;
use std::time::Duration;

#[macro_use]
mod common;
use common::{clean_output_dir, create_wallet_proxy, setup};

fn late_lock_src_account_impl(test_dir: &'static str) -> Result<(), libwallet::Error> {
	let mut wallet_proxy = create_wallet_proxy(test_dir);
	let chain = wallet_proxy.chain.clone();
	let stopper = wallet_proxy.running.clone();

	create_wallet_and_add!(
		client1,
		wallet1,
		mask1_i,
		test_dir,
		"wallet1",
		None,
		&mut wallet_proxy,
		false
	);
	let mask1 = (&mask1_i).as_ref();

	create_wallet_and_add!(
		client2,
		wallet2,
		mask2_i,
		test_dir,
		"wallet2",
		None,
		&mut wallet_proxy,
		false
	);
	let _mask2 = (&mask2_i).as_ref();

	thread::spawn(move || {
		if let Err(e) = wallet_proxy.run() {
			error!("Wallet Proxy error: {}", e);
		}
	});

	let reward = core::consensus::REWARD;

	wallet::controller::owner_single_use(Some(wallet1.clone()), mask1, None, |api, m| {
		api.create_account_path(m, "mining")?;
		api.create_account_path(m, "savings")?;
		Ok(())
	})?;

	// fund both accounts of wallet 1
	{
		wallet_inst!(wallet1, w);
		w.set_parent_key_id_by_name("mining")?;
	}
	let _ = test_framework::award_blocks_to_wallet(&chain, wallet1.clone(), mask1, 5, false);
	{
		wallet_inst!(wallet1, w);
		w.set_parent_key_id_by_name("savings")?;
	}
	let _ = test_framework::award_blocks_to_wallet(&chain, wallet1.clone(), mask1, 8, false);

	// active account is "savings", but the payment is to be made from "mining"
	let amount = reward * 2;
	let mut locked_by_ctx = 0u64;
	wallet::controller::owner_single_use(Some(wallet1.clone()), mask1, None, |api, m| {
		let (_, info) = api.retrieve_summary_info(m, true, 1)?;
		assert_eq!(info.total, 8 * reward);
		let args = InitTxArgs {
			src_acct_name: Some("mining".to_owned()),
			amount,
			minimum_confirmations: 2,
			max_outputs: 500,
			num_change_outputs: 1,
			selection_strategy_is_use_all: false,
			late_lock: Some(true),
			..Default::default()
		};
		let mut slate = api.init_send_tx(m, args)?;
		slate = client1.send_tx_slate_direct("wallet2", &slate)?;
		let r = api.finalize_tx(m, &slate);
		println!("PROBE13 finalize of the late-locked send: ok={} err={:?}", r.is_ok(), r.as_ref().err());

		// nothing in the active (non-source) account may have been reserved
		let (_, outputs) = api.retrieve_outputs(m, false, false, None)?;
		let locked: Vec<_> = outputs
			.iter()
			.filter(|o| o.output.status == OutputStatus::Locked)
			.collect();
		println!("PROBE13 outputs of the ACTIVE account 'savings' now Locked: {}", locked.len());
		assert!(
			locked.is_empty(),
			"{} output(s) of the non-source account 'savings' were selected as inputs",
			locked.len()
		);
		let (_, info) = api.retrieve_summary_info(m, false, 1)?;
		assert_eq!(info.amount_locked, 0);
		let (_, txs) = api.retrieve_txs(m, false, None, None, None)?;
		assert_eq!(txs.len(), 8, "a send was logged against the non-source account");
		Ok(())
	})?;

	// ... and the inputs must be spendable outputs of the source account
	{
		wallet_inst!(wallet1, w);
		w.set_parent_key_id_by_name("mining")?;
	}
	wallet::controller::owner_single_use(Some(wallet1.clone()), mask1, None, |api, m| {
		let (_, outputs) = api.retrieve_outputs(m, false, false, None)?;
		for o in outputs.iter() {
			if o.output.status == OutputStatus::Locked {
				locked_by_ctx += o.output.value;
			}
		}
		assert!(
			locked_by_ctx >= amount,
			"source account 'mining' locked {} for a payment of {}",
			locked_by_ctx,
			amount
		);
		let (_, txs) = api.retrieve_txs(m, false, None, None, None)?;
		assert_eq!(txs.len(), 6);
		Ok(())
	})?;

	stopper.store(false, Ordering::Relaxed);
	thread::sleep(Duration::from_millis(200));
	Ok(())
}

#[test]
fn verif_probe13() {
	let test_dir = "test_output/verif_probe13";
	setup(test_dir);
	if let Err(e) = late_lock_src_account_impl(test_dir) {
		panic!("Libwallet Error: {}", e);
	}
	clean_output_dir(test_dir);
}
