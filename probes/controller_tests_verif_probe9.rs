// C06 replay: owner get_stored_tx on a transaction that is locked but not finalized yet
#[macro_use]
extern crate log;
extern crate grin_wallet_controller as wallet;
extern crate grin_wallet_impls as impls;
use grin_wallet_libwallet as libwallet;
use impls::test_framework::{self, LocalWalletClient};
use libwallet::InitTxArgs;
use std::thread;
#[macro_use]
mod common;
use common::{clean_output_dir, create_wallet_proxy, setup};

#[test]
fn verif_probe9() {
	let test_dir = "test_output/verif_probe9";
	setup(test_dir);
	let mut wallet_proxy = create_wallet_proxy(test_dir);
	let chain = wallet_proxy.chain.clone();
	create_wallet_and_add!(client1, wallet1, mask1_i, test_dir, "wallet1", None, &mut wallet_proxy, false);
	let mask1 = (&mask1_i).as_ref();
	create_wallet_and_add!(_client2, _wallet2, _mask2_i, test_dir, "wallet2", None, &mut wallet_proxy, false);
	thread::spawn(move || {
		if let Err(e) = wallet_proxy.run() {
			error!("Wallet Proxy error: {}", e);
		}
	});
	let _ = test_framework::award_blocks_to_wallet(&chain, wallet1.clone(), mask1, 8, false);
	let w = wallet1.clone();
	let m = mask1_i.clone();
	let c1 = client1.clone();
	let r = std::panic::catch_unwind(std::panic::AssertUnwindSafe(move || {
		let client1 = c1;
		let mut out = String::new();
		wallet::controller::owner_single_use(Some(w), m.as_ref(), None, |api, m| {
			let args = InitTxArgs { src_acct_name: None, amount: 10_000_000_000, minimum_confirmations: 1, max_outputs: 500, num_change_outputs: 1,
				selection_strategy_is_use_all: false, ..Default::default() };
			let slate = api.init_send_tx(m, args)?;
			// the usual order: send, get the reply, lock with the (compacted) reply
			let slate = client1.send_tx_slate_direct("wallet2", &slate)?;
			api.tx_lock_outputs(m, &slate)?;
			let r = api.get_stored_tx(m, None, Some(&slate.id));
			out = format!("{:?}", r.map(|s| s.map(|s| s.fee_fields)));
			Ok(())
		}).unwrap();
		out
	}));
	println!("PROBE get_stored_tx on a locked, not yet finalized transaction: {}", match r { Ok(s) => s, Err(_) => "PANIC".to_string() });
	clean_output_dir(test_dir);
}
