// C09 replay: Slatepack::try_decrypt_payload on encrypted slatepacks whose decrypted content is chosen by the sender
use ed25519_dalek::{PublicKey as DalekPublicKey, SecretKey as DalekSecretKey};
use grin_core::global::{set_local_chain_type, ChainTypes};
use grin_wallet_libwallet::{Slatepack, SlatepackAddress};
use std::io::Write;

fn encrypt_to(addr: &SlatepackAddress, content: &[u8]) -> Vec<u8> {
	let recp_key: age::x25519::Recipient = addr.to_age_pubkey_str().unwrap().parse().unwrap();
	let encryptor = age::Encryptor::with_recipients(vec![Box::new(recp_key) as Box<dyn age::Recipient>]);
	let mut encrypted = vec![];
	let mut writer = encryptor.wrap_output(&mut encrypted).unwrap();
	writer.write_all(content).unwrap();
	writer.finish().unwrap();
	encrypted
}

fn try_one(name: &str, payload: Vec<u8>, key: &DalekSecretKey) {
	let key_bytes = key.to_bytes();
	let r = std::panic::catch_unwind(move || {
		let k = DalekSecretKey::from_bytes(&key_bytes).unwrap();
		let mut sp = Slatepack::default();
		sp.mode = 1;
		sp.payload = payload;
		sp.try_decrypt_payload(Some(&k)).map_err(|e| format!("{}", e))
	});
	println!("PROBE {}: {}", name, match r { Ok(Ok(())) => "Ok".to_string(), Ok(Err(e)) => format!("Err({})", e), Err(_) => "PANIC".to_string() });
}

#[test]
fn verif_probe8() {
	set_local_chain_type(ChainTypes::AutomatedTesting);
	let key = DalekSecretKey::from_bytes(&[7u8; 32]).unwrap();
	let pk: DalekPublicKey = (&key).into();
	let addr = SlatepackAddress::new(&pk);
	// (a) decrypted content shorter than the 4-byte metadata length
	try_one("decrypted content of 2 bytes", encrypt_to(&addr, &[1, 2]), &key);
	// (b) metadata length larger than the decrypted content
	try_one("metadata length 0xffffffff", encrypt_to(&addr, &[0xff, 0xff, 0xff, 0xff]), &key);
	// (c) an age file encrypted with a passphrase instead of to recipients
	let enc = age::Encryptor::with_user_passphrase(age::secrecy::Secret::new("x".to_owned()));
	let mut encrypted = vec![];
	let mut w = enc.wrap_output(&mut encrypted).unwrap();
	w.write_all(&[0u8; 8]).unwrap();
	w.finish().unwrap();
	try_one("passphrase-encrypted age payload", encrypted, &key);
}
