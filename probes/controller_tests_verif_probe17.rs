// C16 replay: scan() names a restored account "account_<number of accounts>" without checking that the label is free:
// an account the user called "account_2" is overwritten by the restored third account path
#[macro_use]
extern crate log;
extern crate grin_wallet_controller as wallet;
extern crate grin_wallet_impls as impls;

use grin_core as core;
use grin_util as util;

use self::core::consensus;
use self::core::global;
use grin_wallet_libwallet as libwallet;
use impls::test_framework::{self, LocalWalletClient};
use std::sync::atomic::Ordering;
use std::thread;
use std::time::Duration;
use util::ZeroingString;

#[macro_use]
mod common;
use common::{clean_output_dir, create_wallet_proxy, setup};

fn restore_many_accounts_impl(test_dir: &'static str) -> Result<(), libwallet::Error> {
	let seed_phrase = "affair pistol cancel crush garment candy ancient flag work \
	                   market crush dry stand focus mutual weapon offer ceiling rival turn team spring \
	                   where swift";
	let seed_phrase = Some(ZeroingString::from(seed_phrase));

	let mut wallet_proxy = create_wallet_proxy(test_dir);
	let chain = wallet_proxy.chain.clone();
	let stopper = wallet_proxy.running.clone();

	create_wallet_and_add!(
		m_client,
		miner,
		miner_mask_i,
		test_dir,
		"miner",
		None,
		&mut wallet_proxy,
		false
	);
	let miner_mask = (&miner_mask_i).as_ref();

	// the original wallet
	create_wallet_and_add!(
		client1,
		wallet1,
		mask1_i,
		test_dir,
		"wallet1",
		seed_phrase,
		&mut wallet_proxy,
		false
	);
	let mask1 = (&mask1_i).as_ref();

	// same seed, will be restored from chain
	create_wallet_and_add!(
		client2,
		wallet2,
		mask2_i,
		test_dir,
		"wallet2",
		seed_phrase,
		&mut wallet_proxy,
		false
	);
	let mask2 = (&mask2_i).as_ref();

	thread::spawn(move || {
		if let Err(e) = wallet_proxy.run() {
			error!("Wallet Proxy error: {}", e);
		}
	});

	let cm = global::coinbase_maturity() as usize;
	let base_amount = consensus::GRIN_BASE;

	let _ = test_framework::award_blocks_to_wallet(&chain, miner.clone(), miner_mask, 20, false);

	// original wallet uses three accounts: default + two named ones
	wallet::controller::owner_single_use(Some(wallet1.clone()), mask1, None, |api, m| {
		api.create_account_path(m, "savings")?;
		api.create_account_path(m, "business")?;
		Ok(())
	})?;

	let plan: Vec<(&str, Vec<u64>)> = vec![
		("default", vec![1, 2]),
		("savings", vec![3, 4]),
		("business", vec![5, 6]),
	];
	for (acct, amounts) in plan.iter() {
		wallet::controller::owner_single_use(Some(wallet1.clone()), mask1, None, |api, m| {
			api.set_active_account(m, acct)?;
			Ok(())
		})?;
		for a in amounts.iter() {
			test_framework::send_to_dest(
				miner.clone(),
				miner_mask,
				m_client.clone(),
				"wallet1",
				base_amount * a,
				false,
			)?;
		}
	}
	let _ = test_framework::award_blocks_to_wallet(&chain, miner.clone(), miner_mask, cm, false);

	// wallet2 (same seed) already has a second account, which its user happened to call "account_2" (path m/1/0)
	wallet::controller::owner_single_use(Some(wallet2.clone()), mask2, None, |api, m| {
		api.create_account_path(m, "account_2")?;
		Ok(())
	})?;
	for round in 0..2 {
		wallet::controller::owner_single_use(Some(wallet2.clone()), mask2, None, |api, m| {
			let before: Vec<String> = api.accounts(m)?.iter().map(|a| format!("{}={:?}", a.label, a.path)).collect();
			api.scan(m, None, false)?;
			let after: Vec<String> = api.accounts(m)?.iter().map(|a| format!("{}={:?}", a.label, a.path)).collect();
			let mut reachable = 0u64;
			for acct in api.accounts(m)? {
				api.set_active_account(m, &acct.label)?;
				let (_, info) = api.retrieve_summary_info(m, true, 1)?;
				reachable += info.amount_currently_spendable;
			}
			api.set_active_account(m, "default")?;
			println!("PROBE scan {}: accounts before {:?} after {:?}; spendable reachable through the account list: {} of {} grin", round + 1, before, after, reachable / base_amount, 21);
			Ok(())
		})?;
	}

	stopper.store(false, Ordering::Relaxed);
	thread::sleep(Duration::from_millis(200));
	Ok(())
}

#[test]
fn verif_probe17() {
	let test_dir = "test_output/verif_probe17";
	setup(test_dir);
	if let Err(e) = restore_many_accounts_impl(test_dir) {
		panic!("Libwallet Error: {}", e);
	}
	clean_output_dir(test_dir);
}
