#[macro_use]
extern crate log;
extern crate grin_wallet_controller as wallet;
extern crate grin_wallet_impls as impls;
use grin_wallet_libwallet as libwallet;
use impls::test_framework::{self, LocalWalletClient};
use libwallet::{InitTxArgs, OutputStatus};
use std::thread;
#[macro_use]
mod common;
use common::{clean_output_dir, create_wallet_proxy, setup};

#[test]
fn verif_probe5() {
	let test_dir = "test_output/verif_probe5";
	setup(test_dir);
	let mut wallet_proxy = create_wallet_proxy(test_dir);
	let chain = wallet_proxy.chain.clone();
	create_wallet_and_add!(client1, wallet1, mask1_i, test_dir, "wallet1", None, &mut wallet_proxy, false);
	let mask1 = (&mask1_i).as_ref();
	create_wallet_and_add!(client2, wallet2, mask2_i, test_dir, "wallet2", None, &mut wallet_proxy, false);
	let mask2 = (&mask2_i).as_ref();
	thread::spawn(move || {
		if let Err(e) = wallet_proxy.run() {
			error!("Wallet Proxy error: {}", e);
		}
	});
	let _ = test_framework::award_blocks_to_wallet(&chain, wallet1.clone(), mask1, 8, false);
	// wallet1 -> wallet2: 10 grin, NOT posted: wallet2 holds an Unconfirmed output
	let mut slate = libwallet::Slate::blank(2, false);
	wallet::controller::owner_single_use(Some(wallet1.clone()), mask1, None, |api, m| {
		let args = InitTxArgs { src_acct_name: None, amount: 10_000_000_000, minimum_confirmations: 1, max_outputs: 500, num_change_outputs: 1,
			selection_strategy_is_use_all: false, ..Default::default() };
		slate = api.init_send_tx(m, args)?;
		slate = client1.send_tx_slate_direct("wallet2", &slate)?;
		api.tx_lock_outputs(m, &slate)?;
		Ok(())
	}).unwrap();
	wallet::controller::owner_single_use(Some(wallet2.clone()), mask2, None, |api, m| {
		let (_, outs) = api.retrieve_outputs(m, false, false, None)?;
		println!("PROBE wallet2 outputs before: {:?}", outs.iter().map(|o| (o.output.value, o.output.status.clone())).collect::<Vec<_>>());
		let (_, info0) = api.retrieve_summary_info(m, false, 1)?;
		println!("PROBE wallet2 before: spendable={} awaiting_finalization={} awaiting_confirmation={}", info0.amount_currently_spendable, info0.amount_awaiting_finalization, info0.amount_awaiting_confirmation);
		// spend the unconfirmed output with minimum_confirmations = 0, lock, then cancel
		let args = InitTxArgs { src_acct_name: None, amount: 1_000_000_000, minimum_confirmations: 0, max_outputs: 500, num_change_outputs: 1,
			selection_strategy_is_use_all: false, ..Default::default() };
		let s2 = api.init_send_tx(m, args)?;
		api.tx_lock_outputs(m, &s2)?;
		let (_, outs) = api.retrieve_outputs(m, false, false, None)?;
		println!("PROBE wallet2 outputs locked: {:?}", outs.iter().map(|o| (o.output.value, o.output.status.clone())).collect::<Vec<_>>());
		api.cancel_tx(m, None, Some(s2.id))?;
		let (_, outs) = api.retrieve_outputs(m, true, false, None)?;
		println!("PROBE wallet2 outputs after cancel: {:?}", outs.iter().map(|o| (o.output.value, o.output.status.clone())).collect::<Vec<_>>());
		let (_, info1) = api.retrieve_summary_info(m, false, 1)?;
		println!("PROBE wallet2 after cancel: spendable={} awaiting_finalization={} awaiting_confirmation={}", info1.amount_currently_spendable, info1.amount_awaiting_finalization, info1.amount_awaiting_confirmation);
		let bad = outs.iter().any(|o| o.output.value == 10_000_000_000 && o.output.status != OutputStatus::Unconfirmed);
		println!("PROBE rollback exact: {}", !bad);
		Ok(())
	}).unwrap();
	clean_output_dir(test_dir);
}
