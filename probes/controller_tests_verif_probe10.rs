// C12 / C03 replay: paying an invoice whose slate id equals the id of one of the payer's own pending sends.
// process_invoice_tx takes "a private context is stored under this slate id" to mean "self-send" and then publishes
// an offset that is only  incoming_offset - (payer's fresh secret excess key).
#[macro_use]
extern crate log;
extern crate grin_wallet_controller as wallet;
extern crate grin_wallet_impls as impls;
use grin_keychain::{BlindSum, BlindingFactor, Keychain};
use grin_wallet_libwallet as libwallet;
use impls::test_framework::{self, LocalWalletClient};
use libwallet::{InitTxArgs, IssueInvoiceTxArgs};
use std::thread;
#[macro_use]
mod common;
use common::{clean_output_dir, create_wallet_proxy, setup};

#[test]
fn verif_probe10() -> Result<(), libwallet::Error> {
	let test_dir = "test_output/verif_probe10";
	setup(test_dir);
	let mut wallet_proxy = create_wallet_proxy(test_dir);
	let chain = wallet_proxy.chain.clone();
	create_wallet_and_add!(client1, wallet1, mask1_i, test_dir, "wallet1", None, &mut wallet_proxy, false);
	let mask1 = (&mask1_i).as_ref();
	create_wallet_and_add!(client2, wallet2, mask2_i, test_dir, "wallet2", None, &mut wallet_proxy, false);
	let mask2 = (&mask2_i).as_ref();
	thread::spawn(move || {
		if let Err(e) = wallet_proxy.run() {
			error!("Wallet Proxy error: {}", e);
		}
	});
	let _ = (client1, client2);
	let _ = test_framework::award_blocks_to_wallet(&chain, wallet1.clone(), mask1, 8, false);

	// victim (wallet1) starts a send and has not locked yet (or uses late locking): a context is stored under its slate id
	let mut send_slate = libwallet::Slate::blank(2, false);
	wallet::controller::owner_single_use(Some(wallet1.clone()), mask1, None, |api, m| {
		let args = InitTxArgs { src_acct_name: None, amount: 10_000_000_000, minimum_confirmations: 1, max_outputs: 500, num_change_outputs: 1,
			selection_strategy_is_use_all: false, ..Default::default() };
		send_slate = api.init_send_tx(m, args)?;
		Ok(())
	})?;
	// counterparty (wallet2) issues an invoice and gives it the same slate id
	let mut invoice = libwallet::Slate::blank(2, true);
	wallet::controller::owner_single_use(Some(wallet2.clone()), mask2, None, |api, m| {
		let args = IssueInvoiceTxArgs { amount: 1_000_000_000, ..Default::default() };
		invoice = api.issue_invoice_tx(m, args)?;
		Ok(())
	})?;
	let incoming_offset = invoice.offset.clone();
	invoice.id = send_slate.id;
	// victim pays the invoice
	let mut reply = libwallet::Slate::blank(2, true);
	let mut accepted = false;
	wallet::controller::owner_single_use(Some(wallet1.clone()), mask1, None, |api, m| {
		let args = InitTxArgs { src_acct_name: None, amount: invoice.amount, minimum_confirmations: 1, max_outputs: 500, num_change_outputs: 1,
			selection_strategy_is_use_all: false, ..Default::default() };
		match api.process_invoice_tx(m, &invoice, args) {
			Ok(s) => { reply = s; accepted = true; }
			Err(e) => println!("PROBE invoice with the id of a pending send refused: {}", e),
		}
		Ok(())
	})?;
	println!("PROBE invoice reusing the slate id of the payer's pending send accepted: {}", accepted);
	if accepted {
		// the secret excess key of the payment now stored by the victim for this slate id
		let (sec_key, keychain) = {
			wallet_inst!(wallet1, w);
			let ctx = w.get_private_context(mask1, reply.id.as_bytes())?;
			(ctx.sec_key.clone(), w.keychain(mask1)?)
		};
		// the published offset is exactly  incoming_offset - payer_secret_excess  (nothing of the payer's inputs/outputs in it)
		let expected = keychain.blind_sum(
			&BlindSum::new()
				.add_blinding_factor(incoming_offset.clone())
				.sub_blinding_factor(BlindingFactor::from_secret_key(sec_key)),
		)?;
		println!("PROBE incoming offset is zero: {}", incoming_offset == BlindingFactor::zero());
		println!("PROBE reply.offset == incoming_offset - payer_secret_excess_key: {}", reply.offset == expected);
	}
	clean_output_dir(test_dir);
	Ok(())
}
