// C09 replay: SlatepackBin / SlatepackEncMetadataBin readers on a header whose "bytes to payload" / "metadata length"
// field is smaller than the optional fields that follow
use grin_wallet_libwallet::{SlatepackAddress, SlatepackBin};
use grin_wallet_util::byte_ser;
use std::convert::TryFrom;
use grin_core::global::{set_local_chain_type, ChainTypes};

#[test]
fn verif_probe7() {
	set_local_chain_type(ChainTypes::AutomatedTesting);
	let addr = SlatepackAddress::random();
	let s = String::try_from(&addr).unwrap();
	// envelope: version 1.0, mode 0, flags = sender present, bytes_to_payload = 0, then the sender, then an empty payload
	let mut b: Vec<u8> = vec![1, 0, 0, 0, 1, 0, 0, 0, 0];
	b.push(s.len() as u8);
	b.extend_from_slice(s.as_bytes());
	b.extend_from_slice(&[0u8; 8]);
	let r = std::panic::catch_unwind(|| byte_ser::from_bytes::<SlatepackBin>(&b).map(|_| ()));
	println!("PROBE SlatepackBin bytes_to_payload=0 with sender: {}", match &r { Ok(Ok(_)) => "Ok".to_string(), Ok(Err(e)) => format!("Err({})", e), Err(_) => "PANIC".to_string() });
}
