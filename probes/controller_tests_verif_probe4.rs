#[macro_use]
extern crate log;
extern crate grin_wallet_controller as wallet;
extern crate grin_wallet_impls as impls;
use grin_wallet_libwallet as libwallet;
use impls::test_framework::{self, LocalWalletClient};
use libwallet::InitTxArgs;
use std::thread;
#[macro_use]
mod common;
use common::{clean_output_dir, create_wallet_proxy, setup};

fn find_sub(h: &[u8], n: &[u8]) -> bool { h.windows(n.len()).any(|w| w == n) }

#[test]
fn verif_probe4() {
	let test_dir = "test_output/verif_probe4";
	setup(test_dir);
	let mut wallet_proxy = create_wallet_proxy(test_dir);
	let chain = wallet_proxy.chain.clone();
	create_wallet_and_add!(client1, wallet1, mask1_i, test_dir, "wallet1", None, &mut wallet_proxy, false);
	let mask1 = (&mask1_i).as_ref();
	thread::spawn(move || {
		if let Err(e) = wallet_proxy.run() {
			error!("Wallet Proxy error: {}", e);
		}
	});
	let _ = test_framework::award_blocks_to_wallet(&chain, wallet1.clone(), mask1, 8, false);
	let mut sec_key_hex = String::new();
	let mut sec_nonce_hex = String::new();
	wallet::controller::owner_single_use(Some(wallet1.clone()), mask1, None, |api, m| {
		let args = InitTxArgs { src_acct_name: None, amount: 1_000_000_000, minimum_confirmations: 1, max_outputs: 500, num_change_outputs: 1,
			selection_strategy_is_use_all: false, ..Default::default() };
		let slate = api.init_send_tx(m, args)?;
		let mut w_lock = api.wallet_inst.lock();
		let w = w_lock.lc_provider()?.wallet_inst()?;
		let ctx = w.get_private_context(m, slate.id.as_bytes())?;
		sec_key_hex = ctx.sec_key.0.iter().map(|b| format!("{}", b)).collect::<Vec<String>>().join(",");
		sec_nonce_hex = ctx.sec_nonce.0.iter().map(|b| format!("{}", b)).collect::<Vec<String>>().join(",");
		Ok(())
	}).unwrap();
	// look for the secret excess key / nonce in clear (JSON byte array, as serde stores them) in the LMDB data file
	let mut found_key = false;
	let mut found_nonce = false;
	for entry in walkdir(&format!("{}/wallet1", test_dir)) {
		if let Ok(bytes) = std::fs::read(&entry) {
			if find_sub(&bytes, sec_key_hex.as_bytes()) { found_key = true; println!("PROBE secret excess key found in clear in {}", entry); }
			if find_sub(&bytes, sec_nonce_hex.as_bytes()) { found_nonce = true; println!("PROBE secret nonce found in clear in {}", entry); }
		}
	}
	println!("PROBE plaintext on disk: sec_key={} sec_nonce={}", found_key, found_nonce);
	clean_output_dir(test_dir);
}

fn walkdir(d: &str) -> Vec<String> {
	let mut out = vec![];
	if let Ok(rd) = std::fs::read_dir(d) {
		for e in rd.flatten() {
			let p = e.path();
			if p.is_dir() { out.extend(walkdir(p.to_str().unwrap())); } else { out.push(p.to_str().unwrap().to_string()); }
		}
	}
	out
}
