// C09 replay: the hand-written serde field decoders of slate_versions/ser.rs on a hex / base64 text that is shorter than
// the fixed-size value it is copied into (`b.copy_from_slice(&bytes[0..N])`)
use grin_wallet_libwallet::slate_versions::ser as dalek_ser;
use grin_wallet_libwallet::slate_versions::v4::PaymentInfoV4;
use grin_wallet_libwallet::PaymentProof;
use serde_derive::Deserialize;

#[derive(Deserialize)]
struct Probe {
	#[serde(with = "dalek_ser::uuid_base64")]
	#[allow(dead_code)]
	id: uuid::Uuid,
}

fn show<T>(what: &str, r: std::thread::Result<Result<T, serde_json::Error>>) {
	println!(
		"PROBE {}: {}",
		what,
		match &r {
			Ok(Ok(_)) => "Ok".to_string(),
			Ok(Err(e)) => format!("Err({})", e),
			Err(_) => "PANIC".to_string(),
		}
	);
}

#[test]
fn verif_probe15() {
	// the payment-proof block of a V4 slate as it arrives at the foreign API (receive_tx / finalize_tx)
	let k = "a".repeat(64);
	let j = format!("{{\"saddr\":\"{}\",\"raddr\":\"{}\",\"rsig\":\"00\"}}", k, k);
	show("PaymentInfoV4 rsig=\"00\"", std::panic::catch_unwind(|| serde_json::from_str::<PaymentInfoV4>(&j)));
	// a payment proof handed to the owner API (verify_payment_proof)
	let a = "tgrin1xtxavwfgs48ckf3gk8wwgcndmn0nt4tvkl8a7ltyejjcy2mc6nfs9gm2lp";
	let j2 = format!("{{\"amount\":\"1\",\"excess\":\"09{}\",\"recipient_address\":\"{}\",\"recipient_sig\":\"abcd\",\"sender_address\":\"{}\",\"sender_sig\":\"abcd\"}}", k, a, a);
	show("PaymentProof recipient_sig=\"abcd\"", std::panic::catch_unwind(|| serde_json::from_str::<PaymentProof>(&j2)));
	show("uuid_base64 \"AAAA\"", std::panic::catch_unwind(|| serde_json::from_str::<Probe>("{\"id\":\"AAAA\"}")));
}
