//! replay: finalize_tx on a reply whose state was altered to Standard2 while the wallet holds the context of a
//! self-paid invoice under the same slate id (its current key pair was replaced, so complete_tx signs with the initial
//! pair, whose entry repopulate_tx did not restore): Slate::fill_round_2 indexes participant_data[i] for i < num_participants
#[macro_use]
extern crate log;
extern crate grin_wallet_controller as wallet;
extern crate grin_wallet_impls as impls;

use grin_wallet_libwallet as libwallet;
use impls::test_framework::{self, LocalWalletClient};
use libwallet::{InitTxArgs, IssueInvoiceTxArgs, Slate, SlateState};
use std::panic::{catch_unwind, AssertUnwindSafe};
use std::thread;

#[macro_use]
mod common;
use common::{clean_output_dir, create_wallet_proxy, setup};

#[test]
fn verif_probe12() {
	let test_dir = "test_output/verif_probe12";
	setup(test_dir);
	let mut wallet_proxy = create_wallet_proxy(test_dir);
	let chain = wallet_proxy.chain.clone();
	create_wallet_and_add!(client1, wallet1, mask1_i, test_dir, "wallet1", None, &mut wallet_proxy, false);
	let mask1 = (&mask1_i).as_ref();
	thread::spawn(move || {
		if let Err(e) = wallet_proxy.run() {
			error!("Wallet Proxy error: {}", e);
		}
	});
	let _ = test_framework::award_blocks_to_wallet(&chain, wallet1.clone(), mask1, 10, false);

	// the wallet invoices itself and pays the invoice (self-send): the payer context is stored under the slate id with the
	// issuer's initial key pair merged in
	let mut slate = Slate::blank(2, true);
	wallet::controller::owner_single_use(Some(wallet1.clone()), mask1, None, |api, m| {
		let args = IssueInvoiceTxArgs { amount: 1_000_000_000, ..Default::default() };
		slate = api.issue_invoice_tx(m, args)?;
		let args = InitTxArgs { src_acct_name: None, amount: slate.amount, minimum_confirmations: 2, max_outputs: 500, num_change_outputs: 1,
			selection_strategy_is_use_all: true, ..Default::default() };
		slate = api.process_invoice_tx(m, &slate, args)?;
		Ok(())
	}).unwrap();
	assert_eq!(slate.state, SlateState::Invoice2);

	// altered reply: claims to be the reply of a plain send and declares three participants
	let mut altered = slate.clone();
	altered.state = SlateState::Standard2;
	altered.num_participants = 3;
	let r = catch_unwind(AssertUnwindSafe(|| {
		wallet::controller::owner_single_use(Some(wallet1.clone()), mask1, None, |api, m| {
			let r = api.finalize_tx(m, &altered);
			println!("PROBE12 finalize altered reply: returned ok={} err={:?}", r.is_ok(), r.err());
			Ok(())
		})
	}));
	println!("PROBE12 finalize_tx on altered reply: panicked={}", r.is_err());
	assert!(!r.is_err(), "finalize_tx panicked on an altered reply");
	clean_output_dir(test_dir);
}
