//! replay: owner init_send_tx with estimate_only = Some(true) and a fee above the 40-bit fee field
//! (large accept_fee_base, a wallet configuration parameter): `fee.try_into().unwrap()` in api_impl/owner.rs
#[macro_use]
extern crate log;
extern crate grin_wallet_controller as wallet;
extern crate grin_wallet_impls as impls;

use grin_core as core;
use grin_wallet_libwallet as libwallet;
use impls::test_framework::{self, LocalWalletClient};
use libwallet::InitTxArgs;
use std::panic::{catch_unwind, AssertUnwindSafe};
use std::thread;

#[macro_use]
mod common;
use common::{clean_output_dir, create_wallet_proxy, setup};

#[test]
fn verif_probe11() {
	let test_dir = "test_output/verif_probe11";
	setup(test_dir);
	let mut wallet_proxy = create_wallet_proxy(test_dir);
	let chain = wallet_proxy.chain.clone();
	create_wallet_and_add!(client1, wallet1, mask1_i, test_dir, "wallet1", None, &mut wallet_proxy, false);
	let mask1 = (&mask1_i).as_ref();
	thread::spawn(move || {
		if let Err(e) = wallet_proxy.run() {
			error!("Wallet Proxy error: {}", e);
		}
	});
	let _ = test_framework::award_blocks_to_wallet(&chain, wallet1.clone(), mask1, 30, false);

	core::global::set_local_accept_fee_base(18_000_000_000);
	// the real send path: an error
	let r = catch_unwind(AssertUnwindSafe(|| {
		wallet::controller::owner_single_use(Some(wallet1.clone()), mask1, None, |api, m| {
			let args = InitTxArgs { src_acct_name: None, amount: 1_000_000_000, minimum_confirmations: 1, max_outputs: 500, num_change_outputs: 1,
				selection_strategy_is_use_all: false, ..Default::default() };
			let r = api.init_send_tx(m, args);
			println!("PROBE11 send: returned ok={} err={:?}", r.is_ok(), r.err());
			Ok(())
		})
	}));
	println!("PROBE11 send, fee > 2^40-1: panicked={}", r.is_err());
	// the estimate: must answer (an error), not crash
	let r = catch_unwind(AssertUnwindSafe(|| {
		wallet::controller::owner_single_use(Some(wallet1.clone()), mask1, None, |api, m| {
			let args = InitTxArgs { src_acct_name: None, amount: 1_000_000_000, minimum_confirmations: 1, max_outputs: 500, num_change_outputs: 1,
				selection_strategy_is_use_all: false, estimate_only: Some(true), ..Default::default() };
			let r = api.init_send_tx(m, args);
			println!("PROBE11 estimate: returned ok={} err={:?}", r.is_ok(), r.err());
			Ok(())
		})
	}));
	println!("PROBE11 estimate_only, fee > 2^40-1: panicked={}", r.is_err());
	core::global::set_local_accept_fee_base(500_000);
	assert!(!r.is_err(), "init_send_tx(estimate_only) panicked");
	clean_output_dir(test_dir);
}
