use grin_core::ser::{self, ProtocolVersion};
use grin_wallet_libwallet::slate_versions::v4::{PaymentInfoV4, SlateV4};
use grin_wallet_libwallet::slate_versions::v4_bin::SlateV4Bin;
use grin_wallet_libwallet::Slate;
use std::panic::catch_unwind;

#[test]
fn verif_probe_proofwrap() {
	grin_core::global::set_local_chain_type(grin_core::global::ChainTypes::AutomatedTesting);
	let slate = Slate::blank(2, false);
	let mut v4 = SlateV4::from(slate);
	let sk = ed25519_dalek::SecretKey::from_bytes(&[7u8; 32]).unwrap();
	let pk: ed25519_dalek::PublicKey = (&sk).into();
	v4.proof = Some(PaymentInfoV4 { saddr: pk.clone(), raddr: pk.clone(), rsig: None });
	let bytes = ser::ser_vec(&SlateV4Bin(v4), ProtocolVersion(4)).unwrap();
	let needle = pk.to_bytes();
	let pos = bytes.windows(32).position(|w| w == &needle[..]).expect("saddr bytes");
	let mut n_panics = 0;
	for fill in [0xFFu8, 0x02, 0x7F, 0xEE] {
		let mut b = bytes.clone();
		for i in 0..32 {
			b[pos + i] = fill;
		}
		let r = catch_unwind(move || {
			let mut rd = &b[..];
			let r: Result<SlateV4Bin, _> = ser::deserialize(&mut rd, ProtocolVersion(4), ser::DeserializationMode::default());
			r.is_ok()
		});
		println!("PROBE proofwrap fill={:#x}: panicked={} ", fill, r.is_err());
		if r.is_err() {
			n_panics += 1;
		}
	}
	println!("PROBE proofwrap panics={}", n_panics);
}
