//! BOUNDED stand-in (never counted as proved): the verbatim text of selection.rs::select_from (extracted by
//! `vx --raw` into extracted.rs on every run) is executed on ALL inputs within the stated bound and checked against
//! the contract assumed by the Verus units: the result is `None` iff the outputs do not cover the amount; otherwise it
//! is a prefix of `outputs` (all of them when select_all), and when not select_all the shortest prefix whose sum
//! reaches the amount.
//! Bound: <= 6 outputs, values in {0,1,2,3,5,2^32,2^60}, amount in {0,1,2,3,4,6,2^32,2^32+1,2^60,2^61,3*2^60+11}.
#[derive(Clone, PartialEq, Debug)]
pub struct OutputData {
	pub value: u64,
	pub tag: u32,
}
include!("extracted.rs");

macro_rules! chk { ($c:expr, $o:expr, $a:expr, $s:expr, $m:expr) => { if !($c) { eprintln!("FAILING INPUT: select_from(amount={}, select_all={}, outputs(values)={:?}) violates: {}", $a, $s, $o.iter().map(|x| x.value).collect::<Vec<_>>(), $m); std::process::exit(1); } } }
fn main() {
	let vals: [u64; 7] = [0, 1, 2, 3, 5, 1 << 32, 1 << 60];
	let amounts: [u64; 11] = [0, 1, 2, 3, 4, 6, 1 << 32, (1 << 32) + 1, 1 << 60, 1 << 61, 3 * (1u64 << 60) + 11];
	let mut cases: u64 = 0;
	let mut nontrivial: u64 = 0;
	let mut sample = String::new();
	for n in 0..=6usize {
		let total_combos = (vals.len() as u64).pow(n as u32);
		for code in 0..total_combos {
			let mut c = code;
			let mut outs = vec![];
			for i in 0..n {
				outs.push(OutputData { value: vals[(c % vals.len() as u64) as usize], tag: i as u32 });
				c /= vals.len() as u64;
			}
			let total: u128 = outs.iter().map(|o| o.value as u128).sum();
			for &amount in amounts.iter() {
				for &select_all in [true, false].iter() {
					cases += 1;
					let r = select_from(amount, select_all, outs.clone());
					match r {
						None => {
							chk!(total < amount as u128, outs, amount, select_all, "None although the outputs cover the amount");
						}
						Some(sel) => {
							chk!(total >= amount as u128, outs, amount, select_all, "Some although the outputs do not cover the amount");
							chk!(sel.len() <= outs.len() && sel[..] == outs[..sel.len()], outs, amount, select_all, "result is not a prefix of outputs");
							if select_all {
								chk!(sel.len() == outs.len(), outs, amount, select_all, "select_all must return every output");
							} else {
								let s: u128 = sel.iter().map(|o| o.value as u128).sum();
								// shortest prefix reaching the amount (empty when amount == 0)
								if amount == 0 {
									chk!(sel.is_empty(), outs, amount, select_all, "amount 0 must select nothing");
								} else {
									chk!(s >= amount as u128, outs, amount, select_all, "selected sum below amount");
									let without_last: u128 = sel[..sel.len() - 1].iter().map(|o| o.value as u128).sum();
									chk!(without_last < amount as u128, outs, amount, select_all, "not the shortest prefix");
								}
								if !sel.is_empty() && sel.len() < outs.len() {
									nontrivial += 1;
									if sample.is_empty() {
										sample = format!("outputs={:?} amount={} select_all=false -> prefix of length {}", outs.iter().map(|o| o.value).collect::<Vec<_>>(), amount, sel.len());
									}
								}
							}
						}
					}
				}
			}
		}
	}
	println!("{{\"cases\": {}, \"nontrivial\": {}, \"sample\": {:?}}}", cases, nontrivial, sample);
}
