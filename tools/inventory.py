#!/usr/bin/env python3
"""tools/inventory.py — markdown table: unit | properties | functions verified on their real bodies | contract stubs used"""
import glob, json, os, subprocess, tomllib, tempfile
V = os.path.dirname(os.path.dirname(os.path.abspath(__file__)))
VX = os.path.join(V, "tools/vx/target/release/vx")
rows = []
for p in sorted(glob.glob(os.path.join(V, "contracts", "*.toml"))):
    cfg = tomllib.load(open(p, "rb"))
    with tempfile.TemporaryDirectory() as t:
        r = subprocess.run([VX, "--repo", "/repo", "--unit", p, "--out", t + "/x.rs", "--meta", t + "/x.json", "--mode", "full", "--prelude-dir", V + "/prelude"], capture_output=True, text=True)
        if r.returncode != 0:
            rows.append((cfg["unit"], cfg.get("properties", []), ["(extraction failed)"], [])); continue
        m = json.load(open(t + "/x.json"))
    ver, stubs = [], []
    for it in m["items"]:
        for fn in it["fns"]:
            (stubs if fn.get("stub") else ver).append(fn.get("vx_qual") or fn["name"])
    lem = [l["name"] if isinstance(l, dict) else l for l in m.get("lemmas", [])]
    rows.append((cfg["unit"], cfg.get("properties", []), ver + ["lemma " + x for x in lem], stubs))
print("| unit | properties | verified on the real body (+ lemmas) | contract stubs of other units used |")
print("|---|---|---|---|")
for u, props, ver, stubs in rows:
    print(f"| `{u}` | {' '.join(props)} | {', '.join('`'+v+'`' for v in ver)} | {', '.join('`'+s+'`' for s in sorted(set(stubs)))} |")
