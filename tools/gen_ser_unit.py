# tools/gen_ser_unit.py — writes contracts/ser_json_fields.toml (the eleven decoders are regular; the TOML is the committed artefact)
mods = [
 # name, optional?, codec, N (array len or None for direct from_bytes), target type, spec ctor, kind
 ("dalek_seckey_serde", False, "hex", None, "DalekSecretKey", "spec_dalek_sk_from", "res"),
 ("dalek_pubkey_serde", False, "hex", None, "DalekPublicKey", "spec_dalek_pk_from", "res"),
 ("dalek_xpubkey_serde", False, "hex", 32, "xDalekPublicKey", "spec_xkey_from", "tot"),
 ("dalek_pubkey_base64", False, "b64", None, "DalekPublicKey", "spec_dalek_pk_from", "res"),
 ("option_dalek_pubkey_base64", True, "b64", 32, "DalekPublicKey", "spec_dalek_pk_from", "res"),
 ("option_dalek_pubkey_serde", True, "hex", 32, "DalekPublicKey", "spec_dalek_pk_from", "res"),
 ("option_xdalek_pubkey_serde", True, "hex", 32, "xDalekPublicKey", "spec_xkey_from", "tot"),
 ("dalek_sig_serde", False, "hex", 64, "DalekSignature", "spec_dalek_sig_from", "res"),
 ("option_dalek_sig_serde", True, "hex", 64, "DalekSignature", "spec_dalek_sig_from", "res"),
 ("option_dalek_sig_base64", True, "b64", 64, "DalekSignature", "spec_dalek_sig_from", "res"),
 ("uuid_base64", False, "b64", 16, "Uuid", "spec_uuid_from", "tot"),
]
out = []
out.append('''unit = "ser_json_fields"
properties = ["C09", "C08"]
prelude = ["slices.rs", "serdejson.rs"]
spec = \'\'\'
// the bytes a field's text stands for under its codec
pub open spec fn field_bytes(hex: bool, s: String) -> Option<Seq<u8>> { if hex { spec_hex_bytes(s) } else { spec_b64_bytes(s) } }
\'\'\'
''')
for (name, opt, codec, n, ty, ctor, kind) in mods:
    hexb = "true" if codec == "hex" else "false"
    T = f"Option<{ty}>" if opt else ty
    out.append(f'''
[[item]]
file = "libwallet/src/slate_versions/ser.rs"
path = "mod {name} :: fn deserialize"
as_free = "{name}_deserialize"
[[item.replace]]
rule = "L1"
pattern = 'err\\.to_string\\(\\)'
with = 'vf_format()'
min = 1''')
    if ty == "xDalekPublicKey":
        out.append('''[[item.replace]]
rule = "L17"
pattern = 'xDalekPublicKey::from\\(b\\)'
with = 'vf_xkey_from(b)'
count = 1''')
    if opt and kind == "res":
        out.append(f'''[[item.replace]]
rule = "L25"
pattern = '\\.map\\(Some\\)'
with = '.map(|v: {ty}| -> (o: Option<{ty}>) ensures o == Some(v) {{ Some(v) }})'
count = 1''')
    # value predicate: v is the value of bytes b
    def val(v, b):
        cut = f"{b}.subrange(0, {n})" if n else b
        if kind == "tot":
            return f"{v} == {ctor}({cut})"
        return f"{ctor}({cut}) == Some({v})"
    lenok = (lambda b: f"{b}.len() >= {n}") if n else (lambda b: "true")
    def valid(b):
        cut = f"{b}.subrange(0, {n})" if n else b
        return "true" if kind == "tot" else f"{ctor}({cut}) is Some"
    ens = []
    if not opt:
        ens.append(f'{{ label = "decoded_value_is_the_value_of_the_fields_text", clause = "res matches Ok(k) ==> (spec_de_text(deserializer) matches Some(s) && field_bytes({hexb}, s) matches Some(b) && {lenok("b")} && {val("k","b")})" }}')
        ens.append(f'{{ label = "text_of_a_value_is_accepted", props = ["C08"], clause = "(spec_de_text(deserializer) matches Some(s) && field_bytes({hexb}, s) matches Some(b) && {lenok("b")} && {valid("b")}) ==> res is Ok" }}')
        ens.append(f'{{ label = "text_that_is_no_such_value_is_refused", clause = "(spec_de_text(deserializer) is None || (spec_de_text(deserializer) matches Some(s) && (field_bytes({hexb}, s) is None || (field_bytes({hexb}, s) matches Some(b) && !({lenok("b")}))))) ==> res is Err" }}')
    else:
        ens.append(f'{{ label = "decoded_value_is_the_value_of_the_fields_text", clause = "res matches Ok(Some(k)) ==> (spec_de_opt_text(deserializer) matches Some(Some(s)) && field_bytes({hexb}, s) matches Some(b) && {lenok("b")} && {val("k","b")})" }}')
        ens.append(f'{{ label = "absent_field_decodes_to_none", clause = "res matches Ok(None) ==> spec_de_opt_text(deserializer) == Some(None::<String>)" }}')
        ens.append(f'{{ label = "text_of_a_value_is_accepted", props = ["C08"], clause = "((spec_de_opt_text(deserializer) matches Some(Some(s)) && field_bytes({hexb}, s) matches Some(b) && {lenok("b")} && {valid("b")}) ==> res matches Ok(Some(_))) && (spec_de_opt_text(deserializer) == Some(None::<String>) ==> res matches Ok(None))" }}')
        ens.append(f'{{ label = "text_that_is_no_such_value_is_refused", clause = "(spec_de_opt_text(deserializer) is None || (spec_de_opt_text(deserializer) matches Some(Some(s)) && (field_bytes({hexb}, s) is None || (field_bytes({hexb}, s) matches Some(b) && !({lenok("b")}))))) ==> res is Err" }}')
    out.append(f"[item.fn.deserialize]\nensures = [\n  " + ",\n  ".join(ens) + "\n]")
    # closures
    dec = "from_hex" if codec == "hex" else "base64::decode"
    byt = lambda s: f"field_bytes({hexb}, {s})"
    if not opt:
        # 1: |string| decode(..).map_err(2: |err|..)   3: |bytes| {... 4: map_err |err| (if res)}
        out.append(f'''[[item.fn.deserialize.closure]]
ordinal = 1
params = "|string: String|"
ret = "(r: Result<Vec<u8>, D::Error>)"
ensures = [ "r matches Ok(v) ==> {byt("string")} == Some(v@)", "r is Err ==> {byt("string")} is None" ]
[[item.fn.deserialize.closure]]
ordinal = 2
params = "|err: DecodeError|"
ret = "(r: D::Error)"
[[item.fn.deserialize.closure]]
ordinal = 3
params = "|bytes: Vec<u8>|"
ret = "(r: Result<{ty}, D::Error>)"
ensures = [ "r matches Ok(k) ==> {lenok("bytes@")} && {val("k","bytes@")}", "!({lenok("bytes@")}) ==> r is Err", "({lenok("bytes@")} && {valid("bytes@")}) ==> r is Ok" ]''')
        if kind == "res":
            out.append(f'''[[item.fn.deserialize.closure]]
ordinal = 4
params = "|err: SignatureError|"
ret = "(r: D::Error)"''')
    else:
        # 1: |res| match..  2: map_err |err| (decode)  3: |bytes| {..}  [4: .map(Some) closure inserted by L25 is not a source closure]  4/5: map_err |err|
        out.append(f'''[[item.fn.deserialize.closure]]
ordinal = 1
params = "|res: Option<String>|"
ret = "(r: Result<Option<{ty}>, D::Error>)"
ensures = [ "r matches Ok(Some(k)) ==> (res matches Some(s) && {byt("s")} matches Some(b) && {lenok("b")} && {val("k","b")})", "r matches Ok(None) ==> res is None", "(res matches Some(s) && ({byt("s")} is None || ({byt("s")} matches Some(b) && !({lenok("b")})))) ==> r is Err", "res is None ==> r matches Ok(None)", "(res matches Some(s) && {byt("s")} matches Some(b) && {lenok("b")} && {valid("b")}) ==> r matches Ok(Some(_))" ]
[[item.fn.deserialize.closure]]
ordinal = 2
params = "|err: DecodeError|"
ret = "(r: D::Error)"
[[item.fn.deserialize.closure]]
ordinal = 3
params = "|bytes: Vec<u8>|"
ret = "(r: Result<Option<{ty}>, D::Error>)"
ensures = [ "r matches Ok(o) ==> (o matches Some(k) && {lenok("bytes@")} && {val("k","bytes@")})", "!({lenok("bytes@")}) ==> r is Err", "({lenok("bytes@")} && {valid("bytes@")}) ==> r matches Ok(Some(_))" ]''')
        if kind == "res":
            out.append(f'''[[item.fn.deserialize.closure]]
ordinal = 4
params = "|err: SignatureError|"
ret = "(r: D::Error)"''')

# ---- the three remaining text decoders (not of the byte-array family)
out.append("""
[[item]]
file = "libwallet/src/slate_versions/v4.rs"
path = "struct VersionCompatInfoV4"
derive = []
no_clone_spec = true

[[item]]
file = "libwallet/src/slate_versions/ser.rs"
path = "mod version_info_v4 :: fn deserialize"
as_free = "version_info_v4_deserialize"
[[item.replace]]
rule = "L17"
pattern = 's\\.split\\(.:.\\)\\.collect\\(\\)'
with = 'vf_split_colon(&s)'
count = 1
[item.fn.deserialize]
ensures = [
  { label = "version_text_is_two_decimal_u16_separated_by_a_colon", clause = "res matches Ok(v) ==> (spec_de_text(deserializer) matches Some(s) && spec_split_colon(s).len() == 2 && spec_u16_dec(spec_split_colon(s)[0]) == Some(v.version) && spec_u16_dec(spec_split_colon(s)[1]) == Some(v.block_header_version))" },
  { label = "malformed_version_text_is_refused", clause = "(spec_de_text(deserializer) is None || (spec_de_text(deserializer) matches Some(s) && (spec_split_colon(s).len() != 2 || spec_u16_dec(spec_split_colon(s)[0]) is None || spec_u16_dec(spec_split_colon(s)[1]) is None))) ==> res is Err" },
]
[[item.fn.deserialize.closure]]
ordinal = 1
params = "|s: String|"
ret = "(r: Result<VersionCompatInfoV4, D::Error>)"
ensures = [
  "r matches Ok(v) ==> spec_split_colon(s).len() == 2 && spec_u16_dec(spec_split_colon(s)[0]) == Some(v.version) && spec_u16_dec(spec_split_colon(s)[1]) == Some(v.block_header_version)",
  "(spec_split_colon(s).len() != 2 || spec_u16_dec(spec_split_colon(s)[0]) is None || spec_u16_dec(spec_split_colon(s)[1]) is None) ==> r is Err",
]
""")
for name, opt in (("ov3_serde", False), ("option_ov3_serde", True)):
    T = "Option<OnionV3Address>" if opt else "OnionV3Address"
    src = "spec_de_opt_text(deserializer) matches Some(Some(s))" if opt else "spec_de_text(deserializer) matches Some(s)"
    okpat = "Ok(Some(a))" if opt else "Ok(a)"
    nonecase = ('\n  { label = "absent_field_decodes_to_none", clause = "res matches Ok(None) ==> spec_de_opt_text(deserializer) == Some(None::<String>)" },' if opt else "")
    andthen = ("'.and_then(|v: OnionV3Address| -> (o: Result<OnionV3Address, D::Error>) ensures o == Ok::<OnionV3Address, D::Error>(v) { Ok(v) })'")
    out.append(f"""
[[item]]
file = "libwallet/src/slate_versions/ser.rs"
path = "mod {name} :: fn deserialize"
as_free = "{name}_deserialize"
[[item.replace]]
rule = "L17"
pattern = 'OnionV3Address::try_from\\(s\\.as_str\\(\\)\\)'
with = 'vf_onion_try_from(&s)'
count = 1
""" + (f"""[[item.replace]]
rule = "L25"
pattern = '\\.and_then\\(Ok\\)'
with = {andthen}
count = 1
""" if not opt else "") + f"""[item.fn.deserialize]
ensures = [
  {{ label = "onion_field_is_the_parsers_reading_of_the_text", clause = "res matches {okpat} ==> ({src} && spec_onion_parse(s) == Some(a))" }},{nonecase}
  {{ label = "text_that_is_no_onion_address_is_refused", clause = "({src.replace(' matches ', ' matches ')} && spec_onion_parse(s) is None) ==> res is Err" }},
]
""")
    if not opt:
        out.append(f"""[[item.fn.deserialize.closure]]
ordinal = 1
params = "|s: String|"
ret = "(r: Result<OnionV3Address, D::Error>)"
ensures = [ "r matches Ok(a) ==> spec_onion_parse(s) == Some(a)", "spec_onion_parse(s) is None ==> r is Err" ]
[[item.fn.deserialize.closure]]
ordinal = 2
params = "|err: OnionV3AddressError|"
ret = "(r: D::Error)"
""")
    else:
        out.append(f"""[[item.fn.deserialize.closure]]
ordinal = 1
params = "|res: Option<String>|"
ret = "(r: Result<Option<OnionV3Address>, D::Error>)"
ensures = [ "r matches Ok(Some(a)) ==> (res matches Some(s) && spec_onion_parse(s) == Some(a))", "r matches Ok(None) ==> res is None", "(res matches Some(s) && spec_onion_parse(s) is None) ==> r is Err" ]
[[item.fn.deserialize.closure]]
ordinal = 2
params = "|err: OnionV3AddressError|"
ret = "(r: D::Error)"
[[item.fn.deserialize.closure]]
ordinal = 3
params = "|a: OnionV3Address|"
ret = "(r: Result<Option<OnionV3Address>, D::Error>)"
ensures = [ "r == Ok::<Option<OnionV3Address>, D::Error>(Some(a))" ]
""")

open('/verif/contracts/ser_json_fields.toml','w').write("\n".join(out)+"\n")
