#!/usr/bin/env python3
"""tools/gen_param_names.py — records the parameter names of every function under contract (from the current /repo tree,
which must be the pinned tree plus the recorded fix commits) into contracts/param_names.json; vx rule P1 restores these
names when a change renames a parameter (e.g. `x` -> `_x`), so that sidecar text keeps resolving."""
import glob, json, os, subprocess, tempfile
V = os.path.dirname(os.path.dirname(os.path.abspath(__file__)))
VX = os.path.join(V, "tools/vx/target/release/vx")
out = {}
pj = os.path.join(V, "contracts", "param_names.json")
if os.path.exists(pj): os.rename(pj, pj + ".old")
for p in sorted(glob.glob(os.path.join(V, "contracts", "*.toml"))):
    with tempfile.TemporaryDirectory() as t:
        r = subprocess.run([VX, "--repo", "/repo", "--unit", p, "--out", t + "/x.rs", "--meta", t + "/x.json", "--mode", "full", "--prelude-dir", V + "/prelude"], capture_output=True, text=True)
        if r.returncode != 0: print("skip", p); continue
        m = json.load(open(t + "/x.json"))
    for it in m["items"]:
        for fn in it["fns"]:
            if fn.get("params"):
                out[f'{it["file"]}::{it["path"]}::{fn["name"]}'] = fn["params"]
json.dump(out, open(pj, "w"), indent=0, sort_keys=True)
if os.path.exists(pj + ".old"): os.remove(pj + ".old")
print(len(out), "functions")
