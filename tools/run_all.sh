#!/bin/bash
# tools/run_all.sh — run every claimed quick check in parallel (developer convenience; not a registered command)
cd /verif
for c in C01 C02 C03 C04 C05 C06 C07 C08 C09 C10 C11 C12 C13 C14 C15 C16 C17 C18 C19; do echo $c; done | xargs -P ${P:-6} -I{} sh -c './check {} > /tmp/chk_{}.log 2>&1; echo {} exit=$?' | sort | tr '\n' ' '; echo
grep -h "VIOLATION\|UNDECIDED\|KNOWN\|NOTE" /tmp/chk_C*.log | cut -c1-200 | sort | uniq -c | head -40
