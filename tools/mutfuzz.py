#!/usr/bin/env python3
"""tools/mutfuzz.py [--units u1,u2,…] [--workers N] [--max-per-fn K]

Self-test of the checks (NOT a registered check): applies small syntactic changes to the functions that are under
contract, one at a time, on scratch source-only worktrees of /repo, runs `./check <prop> --unit <unit>` against the
changed tree and records whether the change is REPORTED (exit 1), UNDECIDED (exit 2) or SURVIVES (exit 0).
Survivors point at weak contracts, undecided runs at brittle extraction (lost anchors / lowerings); changes that do
not type-check are dropped (rustc error in the Verus front end).  Results: out/mutfuzz/report.json
Operators: delete an expression statement; flip a comparison (== != < <= > >=); swap && / ||; +1 -> +2; true <-> false.
"""
import sys, os, re, json, glob, subprocess, tomllib, shutil, hashlib
from concurrent.futures import ThreadPoolExecutor

VERIF = os.path.dirname(os.path.dirname(os.path.abspath(__file__)))
VX = os.path.join(VERIF, "tools/vx/target/release/vx")
OUTROOT = os.path.join(VERIF, "out", "mutfuzz")


def sh(cmd, **kw):
    return subprocess.run(cmd, capture_output=True, text=True, **kw)


def units(selected):
    res = []
    for p in sorted(glob.glob(os.path.join(VERIF, "contracts", "*.toml"))):
        cfg = tomllib.load(open(p, "rb"))
        if selected and cfg["unit"] not in selected:
            continue
        if not cfg.get("properties"):
            continue
        cfg["_path"] = p
        res.append(cfg)
    return res


def fn_spans(cfg, tmp):
    """(file, start, end, fn) byte spans of the functions this unit verifies (not stubs)"""
    rs, meta = os.path.join(tmp, "x.rs"), os.path.join(tmp, "x.json")
    r = sh([VX, "--repo", "/repo", "--unit", cfg["_path"], "--out", rs, "--meta", meta, "--mode", "full", "--prelude-dir", os.path.join(VERIF, "prelude")])
    if r.returncode != 0:
        return []
    m = json.load(open(meta))
    out = []
    for it in m["items"]:
        for fn in it["fns"]:
            if fn.get("stub") is None and fn.get("src_range"):
                out.append((it["file"], fn["src_range"][0], fn["src_range"][1], fn.get("vx_qual") or fn["name"]))
    return out


CMP = [("==", "!="), ("!=", "=="), ("<=", "<"), (">=", ">"), (" < ", " <= "), (" > ", " >= ")]


def mutants(body):
    """yield (description, new_body)"""
    # only look inside the function's block
    ob = body.find("{")
    if ob < 0:
        return
    head, blk = body[:ob], body[ob:]
    # 1. delete simple expression statements (lines ending in ';' that are not let / return and contain a call or assignment)
    for m in re.finditer(r"\n([ \t]+)([A-Za-z_][^\n;{}]*;)[ \t]*(?=\n)", blk):
        st = m.group(2)
        if st.startswith(("let ", "return", "use ", "//", "debug!", "warn!", "error!", "info!", "trace!")):
            continue
        yield ("delete `" + st.strip()[:60] + "`", head + blk[:m.start(2)] + blk[m.end(2):])
    # 2. comparison flips / boolean connectives / constants
    for a, b in CMP:
        for m in re.finditer(re.escape(a), blk):
            # skip generics / arrows / lifetimes
            ctx = blk[max(0, m.start() - 2):m.end() + 2]
            if "->" in ctx or "=>" in ctx or "::<" in ctx:
                continue
            yield (f"`{a.strip()}` -> `{b.strip()}` @{m.start()}", head + blk[:m.start()] + b + blk[m.end():])
    for a, b in [(" && ", " || "), (" || ", " && ")]:
        for m in re.finditer(re.escape(a), blk):
            yield (f"`{a.strip()}` -> `{b.strip()}` @{m.start()}", head + blk[:m.start()] + b + blk[m.end():])
    for m in re.finditer(r"\+ 1\b", blk):
        yield (f"`+ 1` -> `+ 2` @{m.start()}", head + blk[:m.start()] + "+ 2" + blk[m.end():])
    for a, b in [("true", "false"), ("false", "true")]:
        for m in re.finditer(r"\b" + a + r"\b", blk):
            yield (f"`{a}` -> `{b}` @{m.start()}", head + blk[:m.start()] + b + blk[m.end():])
    for m in re.finditer(r"\bSome\((\w+)\)\s*=>", blk):
        pass


def run_one(job):
    wid, cfg, file, start, end, fn, desc, newbody, orig = job
    wt = f"/tmp/mutfuzz_wt{wid}"
    path = os.path.join(wt, file)
    src = open(os.path.join("/repo", file), "rb").read()
    new = src[:start] + newbody.encode() + src[end:]
    open(path, "wb").write(new)
    env = dict(os.environ, VERIF_REPO=wt, VERIF_OUT=os.path.join(OUTROOT, f"w{wid}"), VERIF_NO_CANARY="1")
    # a clause is reported under the properties it is attributed to: try each property of the unit until one reports
    kind, out, prop = "survived", "", cfg["properties"][0]
    for prop in cfg["properties"]:
        r = subprocess.run([os.path.join(VERIF, "check"), prop, "--unit", cfg["unit"]], capture_output=True, text=True, env=env)
        out = r.stdout
        k = {0: "survived", 1: "reported", 2: "undecided"}.get(r.returncode, "error")
        if k != "survived":
            kind = k
            break
    open(path, "wb").write(src)   # restore
    why = ""
    if kind == "undecided":
        u = [l for l in out.splitlines() if l.startswith("UNDECIDED")]
        why = u[0][:260] if u else ""
        if re.search(r"non-exhaustive|isn't initialized|incompatible types|parse error|cannot subtract|is not supported|mismatched types|cannot find|expected .* found|borrow|E0\d\d\d|unused|cannot (move|assign)|no method|not found in this scope|type annotations|cannot be applied|unreachable|syntax|expected one of|unexpected", why) and "anchor" not in why and "lowering" not in why:
            kind = "does-not-compile"
    viol = [l.split("replay=")[0] for l in out.splitlines() if l.startswith("VIOLATION")]
    return {"unit": cfg["unit"], "prop": prop, "fn": fn, "file": file, "mutation": desc, "result": kind, "why": why, "n_violations": len(viol)}


def main():
    args = sys.argv[1:]
    sel = set(args[args.index("--units") + 1].split(",")) if "--units" in args else None
    workers = int(args[args.index("--workers") + 1]) if "--workers" in args else 8
    maxper = int(args[args.index("--max-per-fn") + 1]) if "--max-per-fn" in args else 12
    os.makedirs(OUTROOT, exist_ok=True)
    for w in range(workers):
        wt = f"/tmp/mutfuzz_wt{w}"
        if not os.path.isdir(wt):
            sh(["git", "-C", "/repo", "worktree", "add", "--detach", wt, "HEAD"])
        # the scratch worktree must be the current /repo HEAD (fix commits made since it was created included)
        head = sh(["git", "-C", "/repo", "rev-parse", "HEAD"]).stdout.strip()
        sh(["git", "-C", wt, "checkout", "-q", "--", "."])
        r = sh(["git", "-C", wt, "checkout", "-q", "--detach", head])
        if r.returncode != 0:
            sys.exit(f"mutfuzz: cannot bring {wt} to {head}: {r.stderr}")
    jobs = []
    tmp = os.path.join(OUTROOT, "tmp")
    os.makedirs(tmp, exist_ok=True)
    for cfg in units(sel):
        for (file, s, e, fn) in fn_spans(cfg, tmp):
            src = open(os.path.join("/repo", file), "rb").read()
            body = src[s:e].decode("utf-8", "replace")
            ms = list(mutants(body))
            # deterministic spread
            ms.sort(key=lambda m: hashlib.sha1(m[0].encode()).hexdigest())
            for desc, nb in ms[:maxper]:
                jobs.append([None, cfg, file, s, e, fn, desc, nb, body])
    print(f"{len(jobs)} mutants")
    results = []
    # static assignment of jobs to workers (each worker owns one worktree)
    buckets = [[] for _ in range(workers)]
    for i, j in enumerate(jobs):
        j[0] = i % workers
        buckets[i % workers].append(j)

    def work(b):
        return [run_one(j) for j in b]

    with ThreadPoolExecutor(max_workers=workers) as ex:
        for rs in ex.map(work, buckets):
            results.extend(rs)
    summ = {}
    for r in results:
        summ[r["result"]] = summ.get(r["result"], 0) + 1
    json.dump({"summary": summ, "results": results}, open(os.path.join(OUTROOT, "report.json"), "w"), indent=1)
    print(summ)
    for r in results:
        if r["result"] in ("survived", "undecided"):
            print(f'{r["result"]:10} {r["unit"]}/{r["fn"]}: {r["mutation"]}  {r["why"][:140]}')


if __name__ == "__main__":
    main()
