//! vx — mechanical extractor: takes the *source text* of named items from /repo by syn span,
//! applies only the numbered rules of DESIGN.md §3.1 (A1–A5 annotations from the sidecar,
//! D1–D3 drops, L1–L9 lowerings) and emits one single-file Verus unit plus a JSON description
//! of exactly what was copied, dropped, rewritten and inserted.
//!
//! exit 0: unit written; exit 2: undecided (item/anchor not found, lowering count mismatch …).

use proc_macro2::Span;
use regex::Regex;
use serde::Deserialize;
use serde_json::json;
use std::collections::BTreeMap;
use syn::spanned::Spanned;
use syn::visit::Visit;

// ---------------------------------------------------------------- sidecar format

#[derive(Deserialize, Clone, Debug)]
#[serde(untagged)]
enum Clause {
	Plain(String),
	Full {
		#[serde(default)]
		label: Option<String>,
		#[serde(default)]
		props: Option<Vec<String>>,
		clause: String,
		/// "restricted": only emitted in restricted mode (region guard for a known finding);
		/// "full": only emitted in full mode
		#[serde(default)]
		mode: Option<String>,
	},
}

#[derive(Deserialize, Clone, Debug, Default)]
#[serde(deny_unknown_fields)]
struct LoopCfg {
	ordinal: usize,
	#[serde(default)]
	binder: Option<String>,
	#[serde(default)]
	invariant: Vec<Clause>,
	#[serde(default)]
	invariant_except_break: Vec<Clause>,
	#[serde(default)]
	ensures: Vec<Clause>,
	#[serde(default)]
	decreases: Option<String>,
	/// L20: `for PAT in X.iter() { B }` is emitted as the index loop
	/// `{ let mut vx_iN: usize = 0; while vx_iN < X.len() { let PAT = &X[vx_iN]; vx_iN = vx_iN + 1; B } }`
	/// (Verus' `for` does not support `continue`; `while` does). Only for `X.iter()` on a Vec/slice place expression.
	#[serde(default)]
	index_loop: bool,
	/// with index_loop: `X` is a HashMap iterated by reference (`for (k, v) in X.iter()`): the loop runs over
	/// `let vx_entsN = X.vf_entries()` (every entry once, unspecified order — prelude contract) and binds
	/// `let PAT = vx_entsN[vx_iN];` (a copy of the `(&K, &V)` pair, the item type of the original iterator)
	#[serde(default)]
	map_entries: bool,
	/// with index_loop: the loop is `for PAT in X` over an owned Vec `X` (a path); the element is bound by reference
	#[serde(default)]
	by_value_as_ref: bool,
	/// with index_loop: `for PAT in X` over an owned Vec `X` of Copy items: the element is bound by copy (`let PAT = X[i];`)
	#[serde(default)]
	by_copy: bool,
	/// with index_loop: `for PAT in X` over an owned Vec `X` whose elements the body moves out: bound as `let PAT = vf_clone(&X[i]);`
	#[serde(default)]
	by_clone: bool,
	/// with index_loop: `for PAT in ITER` over an iterator expression (prelude VIter): `let vx_vN = ITER.collect();` then an
	/// index loop binding `let PAT = vf_clone(&vx_vN[i]);`
	#[serde(default)]
	collect: bool,
	/// do not fail (exit 2) when the function no longer has this loop
	#[serde(default)]
	optional: bool,
}

#[derive(Deserialize, Clone, Debug, Default)]
#[serde(deny_unknown_fields)]
struct ClosureCfg {
	ordinal: usize,
	#[serde(default)]
	params: Option<String>,
	#[serde(default)]
	ret: Option<String>,
	#[serde(default)]
	requires: Vec<Clause>,
	#[serde(default)]
	ensures: Vec<Clause>,
}

#[derive(Deserialize, Clone, Debug, Default)]
#[serde(deny_unknown_fields)]
struct ProofCfg {
	/// statement whose whitespace-normalised source text starts with this prefix
	#[serde(default)]
	stmt_prefix: Option<String>,
	#[serde(default)]
	nth: Option<usize>,
	/// loop ordinal (with pos = body_start | body_end | before | after)
	#[serde(default, rename = "loop")]
	loop_: Option<usize>,
	/// before | after | fn_start | fn_end | body_start | body_end
	pos: String,
	text: String,
	#[serde(default)]
	mode: Option<String>,
	/// skip this hint (instead of exit 2) when its anchor no longer exists: for hints attached to a construct whose
	/// removal is itself a relevant change (the obligations then stand without the hint)
	#[serde(default)]
	optional: bool,
}

#[derive(Deserialize, Clone, Debug, Default)]
#[serde(deny_unknown_fields)]
struct ReplaceCfg {
	rule: String,
	pattern: String,
	with: String,
	#[serde(default)]
	count: Option<usize>,
	#[serde(default)]
	min: Option<usize>,
}

#[derive(Deserialize, Clone, Debug, Default)]
#[serde(deny_unknown_fields)]
struct FnCfg {
	/// L22: write every `E?` of this function as `match E { Ok(v) => v, Err(e) => return Err(From::from(e)) }`
	#[serde(default)]
	desugar_try: bool,
	#[serde(default)]
	attrs: Vec<String>,
	#[serde(default)]
	ret: Option<String>,
	#[serde(default)]
	requires: Vec<Clause>,
	#[serde(default)]
	ensures: Vec<Clause>,
	#[serde(default)]
	decreases: Option<String>,
	#[serde(default, rename = "loop")]
	loops: Vec<LoopCfg>,
	#[serde(default, rename = "closure")]
	closures: Vec<ClosureCfg>,
	#[serde(default, rename = "proof")]
	proofs: Vec<ProofCfg>,
	#[serde(default)]
	replace: Vec<ReplaceCfg>,
	/// properties to which implicit safety obligations of this function are attributed
	#[serde(default)]
	safety_props: Option<Vec<String>>,
	/// no canary for this fn (e.g. spec-less helper)
	#[serde(default)]
	no_canary: bool,
	/// L26: `X.iter().take_while(|P| BODY).cloned().collect()` (BODY may update captured locals — an `FnMut` closure, outside
	/// the Verus dialect) is emitted as the loop that defines it:
	/// `{ let mut vx_tw = Vec::new(); let mut vx_twi: usize = 0; while vx_twi < X.len() { let P = &X[vx_twi]; let vx_keep: bool = BODY;
	///    if !vx_keep { break; } vx_tw.push(vf_clone(P)); vx_twi = vx_twi + 1; } vx_tw }` — BODY verbatim, evaluated once per
	/// element in order until it first yields false (std semantics of take_while / cloned / collect: assumption)
	#[serde(default)]
	take_while: Option<TakeWhileCfg>,
	/// L26 (filter form): `X.into_iter().filter(|P| BODY).collect()` with a BODY that updates captured locals (`FnMut`) is emitted as
	/// `{ let vx_src = X; let mut vx_fl = Vec::new(); let mut vx_fli: usize = 0; while vx_fli < vx_src.len() { let P = &vx_src[vx_fli];
	///    let vx_keep: bool = BODY; if vx_keep { vx_fl.push(vf_clone(P)); } vx_fli = vx_fli + 1; } vx_fl }` — BODY verbatim, once per element
	/// in order; the kept elements in order (std semantics of into_iter / filter / collect: assumption)
	#[serde(default)]
	filter_loop: Option<TakeWhileCfg>,
}

#[derive(Deserialize, Clone, Debug, Default)]
#[serde(deny_unknown_fields)]
struct TakeWhileCfg {
	#[serde(default)]
	invariant: Vec<Clause>,
	#[serde(default)]
	invariant_except_break: Vec<Clause>,
	#[serde(default)]
	ensures: Vec<Clause>,
	/// proof text at the start of the loop body / after the loop (before the collected vector is yielded)
	#[serde(default)]
	proof_body_start: Option<String>,
	#[serde(default)]
	proof_after: Option<String>,
	#[serde(default)]
	proof_body_end: Option<String>,
}

#[derive(Deserialize, Clone, Debug)]
#[serde(deny_unknown_fields)]
struct ItemCfg {
	file: String,
	path: String,
	#[serde(default)]
	attrs: Vec<String>,
	/// explicit derive list for a struct/enum (replaces the mechanical intersection)
	#[serde(default)]
	derive: Option<Vec<String>>,
	/// for structs/enums: do not emit the assumed Clone impl
	#[serde(default)]
	no_clone_spec: bool,
	#[serde(default, rename = "fn")]
	fns: BTreeMap<String, FnCfg>,
	#[serde(default)]
	replace: Vec<ReplaceCfg>,
	/// closure unit: `closure N in fn X` emits the closure as a named fn with this header
	#[serde(default)]
	closure_as_fn: Option<String>,
	/// emit functions as contract stubs (external_body + contract); set by `include`
	#[serde(default)]
	stub: bool,
	#[serde(default)]
	stub_home: Option<String>,
	/// R1: emit the selected methods of a trait impl in an inherent impl of the same type (header
	/// `impl<G> Trait for Type` → `impl<G> Type`), so one method can be verified against the trait's clause
	#[serde(default)]
	as_inherent: bool,
	/// R2: a trait impl with one selected method is emitted as a free function of this name
	/// (the trait impl header is dropped; call sites are rewritten by sidecar `replace` rules).
	/// Needed where the method needs a `requires` (Verus forbids them on trait impls) on a foreign Self type.
	#[serde(default)]
	as_free: Option<String>,
}

#[derive(Deserialize, Clone, Debug)]
#[serde(deny_unknown_fields)]
struct UnitCfg {
	#[serde(default)]
	unit: String,
	#[serde(default)]
	properties: Vec<String>,
	#[serde(default)]
	prelude: Vec<String>,
	#[serde(default)]
	spec: String,
	/// (runner) SMT resource limit for this unit
	#[serde(default)]
	rlimit: Option<u32>,
	/// (runner) "thorough": only in the thorough tier
	#[serde(default)]
	tier: Option<String>,
	#[serde(default)]
	tail: String,
	#[serde(default)]
	item: Vec<ItemCfg>,
	/// lemmas over the contracts of this unit: `proof fn` with labelled (and mode-selectable) clauses
	#[serde(default)]
	lemma: Vec<LemmaCfg>,
	#[serde(default)]
	include: Vec<IncludeRef>,
	/// (include files) the unit in which the contracts of this file are proved
	#[serde(default)]
	home: Option<String>,
}

#[derive(Deserialize, Clone, Debug)]
#[serde(deny_unknown_fields)]
struct LemmaCfg {
	name: String,
	params: String,
	#[serde(default)]
	requires: Vec<Clause>,
	#[serde(default)]
	ensures: Vec<Clause>,
	#[serde(default)]
	decreases: Option<String>,
	body: String,
}

#[derive(Deserialize, Clone, Debug)]
#[serde(deny_unknown_fields)]
struct IncludeRef {
	file: String,
	/// true (default): functions are emitted as contract stubs (external_body + the same contract)
	#[serde(default = "default_true")]
	stub: bool,
	/// restrict to these item paths
	#[serde(default)]
	only: Option<Vec<String>>,
	/// drop these item paths
	#[serde(default)]
	except: Vec<String>,
	/// do not import the include file's spec block (when only type definitions are wanted)
	#[serde(default)]
	no_spec: bool,
	/// do not import the include file's prelude list
	#[serde(default)]
	no_prelude: bool,
	/// item paths of this include that THIS unit verifies (body extracted) even though the include is taken as stubs or
	/// the item is marked `stub = true` in the include file (its home unit)
	#[serde(default)]
	verify: Vec<String>,
}
fn default_true() -> bool {
	true
}

impl Clause {
	fn text(&self) -> &str {
		match self {
			Clause::Plain(s) => s,
			Clause::Full { clause, .. } => clause,
		}
	}
	fn label(&self) -> Option<String> {
		match self {
			Clause::Plain(_) => None,
			Clause::Full { label, .. } => label.clone(),
		}
	}
	fn props(&self) -> Option<Vec<String>> {
		match self {
			Clause::Plain(_) => None,
			Clause::Full { props, .. } => props.clone(),
		}
	}
	fn active(&self, mode: &str) -> bool {
		match self {
			Clause::Plain(_) => true,
			Clause::Full { mode: None, .. } => true,
			Clause::Full { mode: Some(m), .. } => m == mode,
		}
	}
}

// ---------------------------------------------------------------- edit engine

#[derive(Clone, Debug)]
enum Part {
	Text(String),
	Src(usize, usize),
	/// records the output position of an annotation clause
	Mark(usize),
}

#[derive(Clone, Debug)]
struct Edit {
	start: usize,
	end: usize,
	parts: Vec<Part>,
	rule: String,
	seq: usize,
}

#[derive(Clone, Debug)]
struct MarkInfo {
	kind: String, // requires | ensures | invariant | decreases | closure_ensures | closure_requires | canary
	func: String,
	label: Option<String>,
	props: Option<Vec<String>>,
	text: String,
	out_start: usize,
	out_end: usize,
}

struct Out {
	buf: String,
	/// verbatim segments: (out_start, out_end, src_file_index, src_start)
	segs: Vec<(usize, usize, usize, usize)>,
	marks: Vec<MarkInfo>,
}

struct Renderer<'s> {
	src: &'s str,
	file_idx: usize,
	edits: Vec<Edit>,
	done: Vec<bool>,
}

impl<'s> Renderer<'s> {
	fn new(src: &'s str, file_idx: usize, mut edits: Vec<Edit>) -> Self {
		edits.sort_by(|a, b| {
			a.start
				.cmp(&b.start)
				.then((a.end == a.start).cmp(&(b.end == b.start)).reverse())
				.then(b.end.cmp(&a.end))
				.then(a.seq.cmp(&b.seq))
		});
		let n = edits.len();
		Renderer {
			src,
			file_idx,
			edits,
			done: vec![false; n],
		}
	}

	fn render(&mut self, lo: usize, hi: usize, out: &mut Out, top: bool) {
		let mut cursor = lo;
		let mut i = 0;
		while i < self.edits.len() {
			let (s, e) = (self.edits[i].start, self.edits[i].end);
			if self.done[i] || s < cursor || s < lo {
				i += 1;
				continue;
			}
			if s > hi || e > hi {
				i += 1;
				continue;
			}
			// zero-length edits at the very end of a nested range belong to the outer range
			if s == hi && e == hi && !top && s != lo {
				i += 1;
				continue;
			}
			self.done[i] = true;
			self.copy(cursor, s, out);
			let parts = self.edits[i].parts.clone();
			for p in parts {
				match p {
					Part::Text(t) => out.buf.push_str(&t),
					Part::Src(a, b) => self.render(a, b, out, false),
					Part::Mark(id) => {
						if out.marks[id].out_start == usize::MAX {
							out.marks[id].out_start = out.buf.len();
						} else {
							out.marks[id].out_end = out.buf.len();
						}
					}
				}
			}
			cursor = e;
			i += 1;
		}
		self.copy(cursor, hi, out);
	}

	fn copy(&self, a: usize, b: usize, out: &mut Out) {
		if b > a {
			let os = out.buf.len();
			out.buf.push_str(&self.src[a..b]);
			out.segs.push((os, out.buf.len(), self.file_idx, a));
		}
	}
}

fn br(sp: Span) -> (usize, usize) {
	let r = sp.byte_range();
	(r.start, r.end)
}

fn die(msg: &str) -> ! {
	eprintln!("vx: UNDECIDED: {}", msg);
	std::process::exit(2);
}

// ---------------------------------------------------------------- generic rules (visitor)

const BATCH_WRITES: &[&str] = &["save", "delete", "lock_output", "save_tx_log_entry", "save_child_index",
	"save_last_confirmed_height", "next_tx_log_id", "save_private_context", "delete_private_context",
	"commit", "save_acct_path", "save_last_scanned_block", "save_init_status"];
const LOG_MACROS: &[&str] = &[
	"debug", "trace", "info", "warn", "error", "println", "eprintln", "print",
];

struct FnVisitor<'c> {
	src: &'c str,
	fname: String,
	cfg: &'c FnCfg,
	mode: &'c str,
	edits: Vec<Edit>,
	marks: Vec<MarkInfo>,
	mark_base: usize,
	loop_ord: usize,
	closure_ord: usize,
	rules: BTreeMap<String, usize>,
	dropped_calls: Vec<String>,
	seq: usize,
	loops_seen: Vec<(usize, usize, usize, usize)>, // ordinal, whole start, body open brace start, whole end
	loop_bodies: Vec<(usize, usize, usize)>,       // ordinal, after-open-brace, close-brace start
	stmts: Vec<(usize, usize)>,
	strip_async: bool,
	/// S1: spans of write-batch operation calls, and spans of expressions directly under `?`
	batch_ops: Vec<(usize, usize, String)>,
	tried: Vec<(usize, usize)>,
	scopes: Vec<(usize, usize, String, usize)>,
	closure_depth: usize,
	/// L20 iter_mut: per enclosing loop, the write-back text to put before a `continue` (None: loop without write-back)
	writeback: Vec<Option<String>>,
	/// I1: free functions of this source file that the unit neither extracts nor defines (see Helper)
	helpers: BTreeMap<String, Helper>,
}

/// I1: a call `f(a1, .., an)` to a free function `f` of the same source file that is neither extracted by the unit nor defined in
/// its prelude / spec text (on the unchanged tree there is none: the unit would not compile) is emitted as the block
/// `({ let p1: T1 = a1; ..; let pn: Tn = an; BODY })` with BODY the function's body verbatim — only for functions without generics,
/// with plain `name: Type` parameters and a body that contains neither `return` nor `?` (their meaning would change inside the
/// caller). A refactoring that merely moves code into such a helper is then verified as if the code were still in place.
#[derive(Clone, Debug)]
struct Helper {
	params: Vec<(String, String)>,
	body: (usize, usize),
}

impl<'c> FnVisitor<'c> {
	fn range_index(&mut self, ix: &syn::ExprIndex, rg: &syn::ExprRange, ws: usize, we: usize, deref: bool) {
		let (xs, xe) = br(ix.expr.span());
		let mut parts = vec![];
		if deref {
			parts.push(Part::Text("(*".into()));
		}
		let inclusive = matches!(rg.limits, syn::RangeLimits::Closed(_));
		let f = match (&rg.start, &rg.end, inclusive) {
			(Some(_), Some(_), false) => "vf_slice",
			(Some(_), Some(_), true) => "vf_slice_incl",
			(Some(_), None, _) => "vf_slice_from",
			(None, Some(_), false) => "vf_slice_to",
			(None, Some(_), true) => "vf_slice_to_incl",
			(None, None, _) => "vf_slice_full",
		};
		parts.push(Part::Text(format!("{}(&", f)));
		parts.push(Part::Src(xs, xe));
		if let Some(a) = &rg.start {
			let (s, e) = br(a.span());
			parts.push(Part::Text(", ".into()));
			parts.push(Part::Src(s, e));
		}
		if let Some(b) = &rg.end {
			let (s, e) = br(b.span());
			parts.push(Part::Text(", ".into()));
			parts.push(Part::Src(s, e));
		}
		parts.push(Part::Text(")".into()));
		if deref {
			parts.push(Part::Text(")".into()));
		}
		self.push(ws, we, parts, "L15");
		// visit sub-expressions so nested rules still apply
		syn::visit::visit_expr(self, &ix.expr);
		if let Some(a) = &rg.start {
			syn::visit::visit_expr(self, a);
		}
		if let Some(b) = &rg.end {
			syn::visit::visit_expr(self, b);
		}
	}
	fn push(&mut self, start: usize, end: usize, parts: Vec<Part>, rule: &str) {
		*self.rules.entry(rule.to_string()).or_insert(0) += 1;
		self.seq += 1;
		self.edits.push(Edit {
			start,
			end,
			parts,
			rule: rule.to_string(),
			seq: self.seq,
		});
	}
	fn mark(
		&mut self,
		kind: &str,
		label: Option<String>,
		props: Option<Vec<String>>,
		text: &str,
	) -> usize {
		self.marks.push(MarkInfo {
			kind: kind.to_string(),
			func: self.fname.clone(),
			label,
			props,
			text: text.to_string(),
			out_start: usize::MAX,
			out_end: usize::MAX,
		});
		self.mark_base + self.marks.len() - 1
	}
	fn clause_parts(&mut self, kw: &str, kind: &str, clauses: &[Clause], indent: &str) -> Vec<Part> {
		let mut parts = vec![];
		let act: Vec<&Clause> = clauses.iter().filter(|c| c.active(self.mode)).collect();
		if act.is_empty() {
			return parts;
		}
		parts.push(Part::Text(format!("\n{}{}\n", indent, kw)));
		for c in act {
			let id = self.mark(kind, c.label(), c.props(), c.text());
			parts.push(Part::Text(format!("{}    ", indent)));
			parts.push(Part::Mark(id));
			parts.push(Part::Text(oneline(c.text())));
			parts.push(Part::Mark(id));
			parts.push(Part::Text(",\n".to_string()));
		}
		parts
	}
	fn scan_calls(&mut self, ts: &proc_macro2::TokenStream, what: &str) {
		// names followed by '(' inside dropped macro arguments: reported as assumptions
		let toks: Vec<proc_macro2::TokenTree> = ts.clone().into_iter().collect();
		for (i, t) in toks.iter().enumerate() {
			match t {
				proc_macro2::TokenTree::Ident(id) => {
					if let Some(proc_macro2::TokenTree::Group(g)) = toks.get(i + 1) {
						if g.delimiter() == proc_macro2::Delimiter::Parenthesis {
							self.dropped_calls.push(format!("{}:{}", what, id));
						}
					}
				}
				proc_macro2::TokenTree::Group(g) => self.scan_calls(&g.stream(), what),
				_ => {}
			}
		}
	}
	fn handle_macro(&mut self, mac: &syn::Macro, whole: (usize, usize), is_stmt: bool) {
		let name = mac
			.path
			.segments
			.last()
			.map(|s| s.ident.to_string())
			.unwrap_or_default();
		if LOG_MACROS.contains(&name.as_str()) {
			self.scan_calls(&mac.tokens, &name);
			let rep = if is_stmt { "" } else { "()" };
			self.push(whole.0, whole.1, vec![Part::Text(rep.to_string())], "D2");
		} else if name == "format" {
			self.scan_calls(&mac.tokens, "format");
			self.push(
				whole.0,
				whole.1,
				vec![Part::Text("vf_format()".to_string())],
				"L1",
			);
		} else if name == "assert" || name == "debug_assert" {
			// first argument only (message args dropped)
			let args = split_top_commas(&mac.tokens);
			if args.is_empty() {
				die("assert! without arguments");
			}
			let (a, b) = args[0];
			let semi = if is_stmt { ";" } else { "" };
			self.push(
				whole.0,
				whole.1,
				vec![
					Part::Text("vf_assert(".to_string()),
					Part::Src(a, b),
					Part::Text(format!("){}", semi)),
				],
				"L9",
			);
		} else if name == "assert_eq" || name == "assert_ne" {
			let args = split_top_commas(&mac.tokens);
			if args.len() < 2 {
				die("assert_eq! with <2 arguments");
			}
			let op = if name == "assert_eq" { "==" } else { "!=" };
			let semi = if is_stmt { ";" } else { "" };
			self.push(
				whole.0,
				whole.1,
				vec![
					Part::Text("vf_assert((".to_string()),
					Part::Src(args[0].0, args[0].1),
					Part::Text(format!(") {} (", op)),
					Part::Src(args[1].0, args[1].1),
					Part::Text(format!(")){}", semi)),
				],
				"L9",
			);
		} else if name == "unreachable" || name == "panic" || name == "unimplemented" || name == "todo" {
			self.scan_calls(&mac.tokens, &name);
			let semi = if is_stmt { ";" } else { "" };
			self.push(
				whole.0,
				whole.1,
				vec![Part::Text(if is_stmt { "vf_unreachable::<()>();".to_string() } else { format!("vf_unreachable(){}", semi) })],
				"L9",
			);
		} else if name == "matches" {
			let args = split_top_commas(&mac.tokens);
			if args.len() != 2 {
				die("matches! with != 2 arguments (guards unsupported)");
			}
			self.push(
				whole.0,
				whole.1,
				vec![
					Part::Text("(match ".to_string()),
					Part::Src(args[0].0, args[0].1),
					Part::Text(" { ".to_string()),
					Part::Src(args[1].0, args[1].1),
					Part::Text(" => true, _ => false })".to_string()),
				],
				"L7",
			);
		}
		else if name == "wallet_lock" {
			// L6: the macro's definition (libwallet/src/lib.rs) with its two arguments substituted
			let args = split_top_commas(&mac.tokens);
			if args.len() != 2 {
				die("wallet_lock! expects two arguments");
			}
			let w = self.src[args[1].0..args[1].1].to_string();
			self.push(
				whole.0,
				whole.1,
				vec![
					Part::Text("let inst = ".into()),
					Part::Src(args[0].0, args[0].1),
					Part::Text(format!(".clone();\nlet mut w_lock = inst.lock();\nlet w_provider = w_lock.lc_provider()?;\nlet {} = w_provider.wallet_inst()?;", w)),
				],
				"L6",
			);
		}
		// vec! and anything else: left verbatim (Verus decides)
	}
}

fn oneline(s: &str) -> String {
	s.split_whitespace().collect::<Vec<_>>().join(" ")
}

/// byte ranges of the top-level comma-separated arguments of a macro token stream
fn split_top_commas(ts: &proc_macro2::TokenStream) -> Vec<(usize, usize)> {
	let mut out = vec![];
	let mut cur: Option<(usize, usize)> = None;
	for t in ts.clone() {
		let is_comma = matches!(&t, proc_macro2::TokenTree::Punct(p) if p.as_char() == ',');
		if is_comma {
			if let Some(c) = cur.take() {
				out.push(c);
			}
		} else {
			let (a, b) = br(t.span());
			cur = Some(match cur {
				None => (a, b),
				Some((s, _)) => (s, b),
			});
		}
	}
	if let Some(c) = cur {
		out.push(c);
	}
	out
}

/// S2: lexical scopes in which a write batch is live and not yet committed
#[derive(Default)]
struct BatchScopes {
	/// (scope start = end of the `let … = X.batch(..)?;` statement, scope end = enclosing block end, variable name, position of `.commit()`)
	scopes: Vec<(usize, usize, String, usize)>,
}
impl<'ast> Visit<'ast> for BatchScopes {
	fn visit_block(&mut self, b: &'ast syn::Block) {
		let (_, bend) = br(b.span());
		for st in &b.stmts {
			if let syn::Stmt::Local(l) = st {
				if let (syn::Pat::Ident(pi), Some(init)) = (&l.pat, &l.init) {
					let mut e: &syn::Expr = &init.expr;
					if let syn::Expr::Try(t) = e {
						e = &t.expr;
					}
					if let syn::Expr::MethodCall(mc) = e {
						let m = mc.method.to_string();
						// the wallet's write batch: `X.batch(keychain_mask)` / `X.batch_no_mask()` (not the raw store's `db.batch()`)
						if (m == "batch" && mc.args.len() == 1) || (m == "batch_no_mask" && mc.args.is_empty()) {
							let (_, send) = br(st.span());
							let name = pi.ident.to_string();
							// first `<name>.commit()` textually after the binding
							let mut f = CommitFinder { name: name.clone(), pos: None, after: send };
							f.visit_block(b);
							self.scopes.push((send, bend, name, f.pos.unwrap_or(bend)));
						}
					}
				}
			}
		}
		syn::visit::visit_block(self, b);
	}
}
struct CommitFinder {
	name: String,
	pos: Option<usize>,
	after: usize,
}
impl<'ast> Visit<'ast> for CommitFinder {
	fn visit_expr_method_call(&mut self, mc: &'ast syn::ExprMethodCall) {
		if mc.method == "commit" {
			if let syn::Expr::Path(p) = &*mc.receiver {
				if p.path.is_ident(&self.name) {
					let (s, _) = br(mc.span());
					if s >= self.after && self.pos.map(|p| s < p).unwrap_or(true) {
						self.pos = Some(s);
					}
				}
			}
		}
		syn::visit::visit_expr_method_call(self, mc);
	}
}

impl<'ast, 'c> Visit<'ast> for FnVisitor<'c> {
	fn visit_attribute(&mut self, a: &'ast syn::Attribute) {
		let (s, e) = br(a.span());
		self.push(s, e, vec![], "D1");
	}
	fn visit_stmt(&mut self, st: &'ast syn::Stmt) {
		let (s, e) = br(st.span());
		self.stmts.push((s, e));
		if let syn::Stmt::Macro(sm) = st {
			for a in &sm.attrs {
				self.visit_attribute(a);
			}
			self.handle_macro(&sm.mac, (s, e), true);
			return;
		}
		syn::visit::visit_stmt(self, st);
	}
	fn visit_expr_macro(&mut self, em: &'ast syn::ExprMacro) {
		let (s, e) = br(em.span());
		self.handle_macro(&em.mac, (s, e), false);
	}
	fn visit_expr_await(&mut self, ea: &'ast syn::ExprAwait) {
		if self.strip_async {
			let (_, bs) = br(ea.base.span());
			let (_, e) = br(ea.span());
			self.push(bs, e, vec![], "D3");
		}
		syn::visit::visit_expr_await(self, ea);
	}
	fn visit_expr_for_loop(&mut self, fl: &'ast syn::ExprForLoop) {
		self.loop_ord += 1;
		let ord = self.loop_ord;
		let (ws, we) = br(fl.span());
		let (bs, be) = br(fl.body.span());
		self.loops_seen.push((ord, ws, bs, we));
		self.loop_bodies.push((ord, bs + 1, be - 1));
		let cfg = self.cfg.loops.iter().find(|l| l.ordinal == ord).cloned();
		if let Some(lc) = cfg.clone().filter(|l| l.index_loop) {
			// `for PAT in A..B` (half-open usize range): `{ let mut vx_iN: usize = A; let vx_nN: usize = B; while vx_iN < vx_nN { let PAT = vx_iN; vx_iN = vx_iN + 1; … } }`
			if let syn::Expr::Range(r) = &*fl.expr {
				let (st, en) = match (&r.start, &r.end, &r.limits) {
					(Some(a), Some(b), syn::RangeLimits::HalfOpen(_)) => (br(a.span()), br(b.span())),
					_ => die(&format!("{}: loop {}: index_loop over a range needs `A..B`", self.fname, ord)),
				};
				let (ps, pe) = br(fl.pat.span());
				let iv = format!("vx_i{}", ord);
				let nv = format!("vx_n{}", ord);
				self.push(ws, bs, vec![
					Part::Text(format!("{{ let mut {}: usize = ", iv)), Part::Src(st.0, st.1),
					Part::Text(format!("; let {}: usize = ", nv)), Part::Src(en.0, en.1),
					Part::Text(format!(";\nwhile {} < {}\n", iv, nv)),
				], "L20");
				let mut parts = self.clause_parts("invariant_except_break", "invariant", &lc.invariant_except_break, "        ");
				let mut inv = vec![Clause::Plain(format!("{} <= {}", iv, nv))];
				inv.extend(lc.invariant.iter().cloned());
				parts.extend(self.clause_parts("invariant", "invariant", &inv, "        "));
				parts.extend(self.clause_parts("ensures", "invariant", &lc.ensures, "        "));
				let d = lc.decreases.clone().unwrap_or(format!("{} - {}", nv, iv));
				parts.push(Part::Text(format!("\n        decreases {},\n    ", d)));
				self.push(bs, bs, parts, "A2");
				self.push(bs + 1, bs + 1, vec![
					Part::Text("\nlet ".to_string()), Part::Src(ps, pe),
					Part::Text(format!(" = {}; {} = {} + 1;\n", iv, iv, iv)),
				], "L20");
				self.push(we, we, vec![Part::Text(" }".to_string())], "L20");
				self.push(we, we, vec![Part::Text(";".to_string())], "A2");
				{ self.writeback.push(None); syn::visit::visit_expr_for_loop(self, fl); self.writeback.pop(); }
				return;
			}
			if lc.collect {
				let (es, ee) = br(fl.expr.span());
				let (ps, pe) = br(fl.pat.span());
				let iv = format!("vx_i{}", ord);
				let vv = format!("vx_v{}", ord);
				self.push(ws, bs, vec![
					Part::Text(format!("let {} = ", vv)), Part::Src(es, ee),
					Part::Text(format!(".collect(); {{ let mut {}: usize = 0;\nwhile {} < {}.len()\n", iv, iv, vv)),
				], "L20");
				let mut parts = self.clause_parts("invariant_except_break", "invariant", &lc.invariant_except_break, "        ");
				let mut inv = vec![Clause::Plain(format!("{} <= {}.len()", iv, vv))];
				inv.extend(lc.invariant.iter().cloned());
				parts.extend(self.clause_parts("invariant", "invariant", &inv, "        "));
				parts.extend(self.clause_parts("ensures", "invariant", &lc.ensures, "        "));
				let d = lc.decreases.clone().unwrap_or(format!("{}.len() - {}", vv, iv));
				parts.push(Part::Text(format!("\n        decreases {},\n    ", d)));
				self.push(bs, bs, parts, "A2");
				self.push(bs + 1, bs + 1, vec![
					Part::Text("\nlet ".to_string()), Part::Src(ps, pe),
					Part::Text(format!(" = vf_clone(&{}[{}]); {} = {} + 1;\n", vv, iv, iv, iv)),
				], "L20");
				self.push(we, we, vec![Part::Text(" }".to_string())], "L20");
				self.push(we, we, vec![Part::Text(";".to_string())], "A2");
				{ self.writeback.push(None); syn::visit::visit_expr_for_loop(self, fl); self.writeback.pop(); }
				return;
			}
			// `for PAT in &EXPR` (EXPR evaluates to a Vec): `let vx_vN = EXPR; { let mut vx_iN = 0; while vx_iN < vx_vN.len() { let PAT = &vx_vN[vx_iN]; … } }`
			if let syn::Expr::Reference(rf) = &*fl.expr {
				let (es, ee) = br(rf.expr.span());
				let (ps, pe) = br(fl.pat.span());
				let iv = format!("vx_i{}", ord);
				let vv = format!("vx_v{}", ord);
				self.push(ws, bs, vec![
					Part::Text(format!("let {} = ", vv)), Part::Src(es, ee),
					Part::Text(format!("; {{ let mut {}: usize = 0;\nwhile {} < {}.len()\n", iv, iv, vv)),
				], "L20");
				let mut parts = self.clause_parts("invariant_except_break", "invariant", &lc.invariant_except_break, "        ");
				let mut inv = vec![Clause::Plain(format!("{} <= {}.len()", iv, vv))];
				inv.extend(lc.invariant.iter().cloned());
				parts.extend(self.clause_parts("invariant", "invariant", &inv, "        "));
				parts.extend(self.clause_parts("ensures", "invariant", &lc.ensures, "        "));
				let d = lc.decreases.clone().unwrap_or(format!("{}.len() - {}", vv, iv));
				parts.push(Part::Text(format!("\n        decreases {},\n    ", d)));
				self.push(bs, bs, parts, "A2");
				self.push(bs + 1, bs + 1, vec![
					Part::Text("\nlet ".to_string()), Part::Src(ps, pe),
					Part::Text(format!(" = &{}[{}]; {} = {} + 1;\n", vv, iv, iv, iv)),
				], "L20");
				self.push(we, we, vec![Part::Text(" }".to_string())], "L20");
				self.push(we, we, vec![Part::Text(";".to_string())], "A2");
				{ self.writeback.push(None); syn::visit::visit_expr_for_loop(self, fl); self.writeback.pop(); }
				return;
			}
			// `for PAT in X.iter_mut()` (X a Vec named by a path, PAT an identifier): the element is copied out
			// (`let mut PAT = vf_clone(&X[i]);`), the body works on the copy (field access / method calls read the same for an owned
			// value and a `&mut`), and the copy is written back (`X.set(i, PAT)`) at the end of the body and before every `continue`
			// of this loop. Early exits (`return`, `?`) do not write back: the element is unspecified after an error.
			if let syn::Expr::MethodCall(mc) = &*fl.expr {
				if mc.method == "iter_mut" && mc.args.is_empty() {
					let (rs, re_) = br(mc.receiver.span());
					let (ps, pe) = br(fl.pat.span());
					let iv = format!("vx_i{}", ord);
					let recv_text = oneline(&self.src[rs..re_]);
					let pat_text = oneline(&self.src[ps..pe]);
					self.push(ws, bs, vec![
						Part::Text(format!("{{ let mut {}: usize = 0;\nwhile {} < ", iv, iv)), Part::Src(rs, re_), Part::Text(".len()\n".to_string()),
					], "L20");
					let mut parts = self.clause_parts("invariant_except_break", "invariant", &lc.invariant_except_break, "        ");
					let mut inv = vec![Clause::Plain(format!("{} <= {}.len()", iv, recv_text))];
					inv.extend(lc.invariant.iter().cloned());
					parts.extend(self.clause_parts("invariant", "invariant", &inv, "        "));
					parts.extend(self.clause_parts("ensures", "invariant", &lc.ensures, "        "));
					let d = lc.decreases.clone().unwrap_or(format!("{}.len() - {}", recv_text, iv));
					parts.push(Part::Text(format!("\n        decreases {},\n    ", d)));
					self.push(bs, bs, parts, "A2");
					self.push(bs + 1, bs + 1, vec![
						Part::Text(format!("\nlet mut {} = vf_clone(&", pat_text)), Part::Src(rs, re_),
						Part::Text(format!("[{}]); {} = {} + 1;\n", iv, iv, iv)),
					], "L20");
					let wb = format!("{}.set({} - 1, {});", recv_text, iv, pat_text);
					self.push(be - 1, be - 1, vec![Part::Text(format!("\n{}\n", wb))], "L20");
					self.push(we, we, vec![Part::Text(" }".to_string())], "L20");
					self.push(we, we, vec![Part::Text(";".to_string())], "A2");
					self.writeback.push(Some(wb));
					syn::visit::visit_expr_for_loop(self, fl);
					self.writeback.pop();
					return;
				}
			}
			// `for (I, PAT) in <one of the forms below>.enumerate()`: the pair binds the loop index before its increment
			let (iter_expr, enumerated): (&syn::Expr, bool) = match &*fl.expr {
				syn::Expr::MethodCall(mc) if mc.method == "enumerate" && mc.args.is_empty() => (&*mc.receiver, true),
				e => (e, false),
			};
			let recv = match iter_expr {
				syn::Expr::MethodCall(mc) if mc.method == "iter" && mc.args.is_empty() => br(mc.receiver.span()),
				// `for PAT in X.into_iter()` over an owned Vec named by a path: as `for PAT in X`
				syn::Expr::MethodCall(mc) if mc.method == "into_iter" && mc.args.is_empty() && matches!(&*mc.receiver, syn::Expr::Path(_)) && (lc.by_value_as_ref || lc.by_copy || lc.by_clone) => br(mc.receiver.span()),
				// `for PAT in X` over an owned Vec named by a path: the index loop binds `&X[i]`; accepted only because the
				// generated text must still type-check, i.e. the body only reads the element
				syn::Expr::Path(_) if lc.by_value_as_ref || lc.by_copy || lc.by_clone || lc.map_entries => br(iter_expr.span()),
				_ => die(&format!("{}: loop {}: index_loop needs `for PAT in X.iter()`", self.fname, ord)),
			};
			let (en_open, en_close) = if enumerated { (format!("({}, ", format!("vx_i{}", ord)), ")".to_string()) } else { (String::new(), String::new()) };
			let (ps, pe) = br(fl.pat.span());
			let iv = format!("vx_i{}", ord);
			let recv_text = oneline(&self.src[recv.0..recv.1]);
			let ents = format!("vx_ents{}", ord);
			if lc.map_entries {
				self.push(ws, bs, vec![
					// (the entries vector is declared before the loop's block so that proof text after the loop can name it;
					// the loop must therefore be a statement)
					Part::Text(format!("let {} = ", ents)),
					Part::Src(recv.0, recv.1),
					Part::Text(format!(".vf_entries(); {{ let mut {}: usize = 0;\nwhile {} < {}.len()\n", iv, iv, ents)),
				], "L20");
			} else {
				self.push(ws, bs, vec![
					Part::Text(format!("{{ let mut {}: usize = 0;\nwhile {} < ", iv, iv)),
					Part::Src(recv.0, recv.1),
					Part::Text(".len()\n".to_string()),
				], "L20");
			}
			let recv_text = if lc.map_entries { ents.clone() } else { recv_text };
			let mut inv = vec![Clause::Plain(format!("{} <= {}.len()", iv, recv_text))];
			inv.extend(lc.invariant.iter().cloned());
			let mut parts = self.clause_parts("invariant_except_break", "invariant", &lc.invariant_except_break, "        ");
			parts.extend(self.clause_parts("invariant", "invariant", &inv, "        "));
			parts.extend(self.clause_parts("ensures", "invariant", &lc.ensures, "        "));
			let d = lc.decreases.clone().unwrap_or(format!("{}.len() - {}", recv_text, iv));
			parts.push(Part::Text(format!("\n        decreases {},\n    ", d)));
			self.push(bs, bs, parts, "A2");
			if lc.map_entries {
				self.push(bs + 1, bs + 1, vec![
					Part::Text("\nlet ".to_string()), Part::Src(ps, pe),
					Part::Text(format!(" = {}{}[{}]{}; {} = {} + 1;\n", en_open, ents, iv, en_close, iv, iv)),
				], "L20");
			} else if lc.by_clone {
				self.push(bs + 1, bs + 1, vec![
					Part::Text("\nlet ".to_string()), Part::Src(ps, pe), Part::Text(format!(" = {}vf_clone(&", en_open)), Part::Src(recv.0, recv.1),
					Part::Text(format!("[{}]){}; {} = {} + 1;\n", iv, en_close, iv, iv)),
				], "L20");
			} else if lc.by_copy {
				self.push(bs + 1, bs + 1, vec![
					Part::Text("\nlet ".to_string()), Part::Src(ps, pe), Part::Text(format!(" = {}", en_open)), Part::Src(recv.0, recv.1),
					Part::Text(format!("[{}]{}; {} = {} + 1;\n", iv, en_close, iv, iv)),
				], "L20");
			} else {
				self.push(bs + 1, bs + 1, vec![
					Part::Text("\nlet ".to_string()), Part::Src(ps, pe), Part::Text(format!(" = {}&", en_open)), Part::Src(recv.0, recv.1),
					Part::Text(format!("[{}]{}; {} = {} + 1;\n", iv, en_close, iv, iv)),
				], "L20");
			}
			self.push(we, we, vec![Part::Text(" }".to_string())], "L20");
			self.push(we, we, vec![Part::Text(";".to_string())], "A2");
			{ self.writeback.push(None); syn::visit::visit_expr_for_loop(self, fl); self.writeback.pop(); }
			return;
		}
		if let Some(lc) = cfg {
			if let Some(b) = &lc.binder {
				let (es, _) = br(fl.expr.span());
				self.push(es, es, vec![Part::Text(format!("{}: ", b))], "A2");
			}
			let mut parts = self.clause_parts("invariant", "invariant", &lc.invariant, "        ");
			if let Some(d) = &lc.decreases {
				parts.push(Part::Text(format!("\n        decreases {},\n", d)));
			}
			if !parts.is_empty() {
				parts.push(Part::Text("    ".to_string()));
				self.push(bs, bs, parts, "A2");
				// Verus' grammar: an annotated loop directly followed by a block needs a separator
				self.push(we, we, vec![Part::Text(";".to_string())], "A2");
			}
		}
		{ self.writeback.push(None); syn::visit::visit_expr_for_loop(self, fl); self.writeback.pop(); }
	}
	fn visit_expr_continue(&mut self, c: &'ast syn::ExprContinue) {
		if let Some(Some(wb)) = self.writeback.last().cloned() {
			let (cs, ce) = br(c.span());
			self.push(cs, ce, vec![Part::Text(format!("{{ {} continue }}", wb))], "L20");
		}
	}
	fn visit_expr_while(&mut self, wl: &'ast syn::ExprWhile) {
		self.loop_ord += 1;
		let ord = self.loop_ord;
		let (ws, we) = br(wl.span());
		let (bs, be) = br(wl.body.span());
		self.loops_seen.push((ord, ws, bs, we));
		self.loop_bodies.push((ord, bs + 1, be - 1));
		let cfg = self.cfg.loops.iter().find(|l| l.ordinal == ord).cloned();
		if let Some(lc) = cfg {
			let mut parts = self.clause_parts("invariant", "invariant", &lc.invariant, "        ");
			parts.extend(self.clause_parts(
				"invariant_except_break",
				"invariant",
				&lc.invariant_except_break,
				"        ",
			));
			parts.extend(self.clause_parts("ensures", "invariant", &lc.ensures, "        "));
			if let Some(d) = &lc.decreases {
				parts.push(Part::Text(format!("\n        decreases {},\n", d)));
			}
			if !parts.is_empty() {
				parts.push(Part::Text("    ".to_string()));
				self.push(bs, bs, parts, "A2");
				// Verus' grammar: an annotated loop directly followed by a block needs a separator
				self.push(we, we, vec![Part::Text(";".to_string())], "A2");
			}
		}
		self.writeback.push(None);
		syn::visit::visit_expr_while(self, wl);
		self.writeback.pop();
	}
	fn visit_expr_loop(&mut self, l: &'ast syn::ExprLoop) {
		self.loop_ord += 1;
		let ord = self.loop_ord;
		let (ws, we) = br(l.span());
		let (bs, be) = br(l.body.span());
		self.loops_seen.push((ord, ws, bs, we));
		self.loop_bodies.push((ord, bs + 1, be - 1));
		let cfg = self.cfg.loops.iter().find(|x| x.ordinal == ord).cloned();
		if let Some(lc) = cfg {
			let mut parts = self.clause_parts("invariant", "invariant", &lc.invariant, "        ");
			parts.extend(self.clause_parts(
				"invariant_except_break",
				"invariant",
				&lc.invariant_except_break,
				"        ",
			));
			parts.extend(self.clause_parts("ensures", "invariant", &lc.ensures, "        "));
			if let Some(d) = &lc.decreases {
				parts.push(Part::Text(format!("\n        decreases {},\n", d)));
			}
			if !parts.is_empty() {
				parts.push(Part::Text("    ".to_string()));
				self.push(bs, bs, parts, "A2");
				// Verus' grammar: an annotated loop directly followed by a block needs a separator
				self.push(we, we, vec![Part::Text(";".to_string())], "A2");
			}
		}
		self.writeback.push(None);
		syn::visit::visit_expr_loop(self, l);
		self.writeback.pop();
	}
	fn visit_expr_call(&mut self, c: &'ast syn::ExprCall) {
		if let syn::Expr::Path(p) = &*c.func {
			if p.qself.is_none() && p.path.segments.len() == 1 && p.path.segments[0].arguments.is_empty() {
				let name = p.path.segments[0].ident.to_string();
				if let Some(h) = self.helpers.get(&name).cloned() {
					if h.params.len() == c.args.len() {
						let (ws, we) = br(c.span());
						let mut parts = vec![Part::Text("({ ".to_string())];
						for ((pn, pt), a) in h.params.iter().zip(c.args.iter()) {
							let (as_, ae) = br(a.span());
							parts.push(Part::Text(format!("let {}: {} = ", pn, pt)));
							parts.push(Part::Src(as_, ae));
							parts.push(Part::Text("; ".to_string()));
						}
						parts.push(Part::Src(h.body.0, h.body.1));
						parts.push(Part::Text(" })".to_string()));
						self.push(ws, we, parts, "I1");
						for a in c.args.iter() { syn::visit::visit_expr(self, a); }
						return;
					}
				}
			}
		}
		syn::visit::visit_expr_call(self, c);
	}
	fn visit_expr_try(&mut self, t: &'ast syn::ExprTry) {
		self.tried.push(br(t.expr.span()));
		let (ws, we) = br(t.span());
		// L22: `E?` written out as its desugaring (Rust reference), on request: Verus gives no fact about the error
		// converted by `?`, but does use the contract of an explicit `From::from` call
		if self.closure_depth == 0 && self.cfg.desugar_try && !self.scopes.iter().any(|(a, b, _, c)| ws >= *a && we <= *b && ws < *c) {
			let (es, ee) = br(t.expr.span());
			self.push(ws, we, vec![
				Part::Text("(match ".into()), Part::Src(es, ee),
				Part::Text(" { Ok(vx_ok) => vx_ok, Err(vx_err) => { return Err(core::convert::From::from(vx_err)); } })".into()),
			], "L22");
		}
		if self.closure_depth == 0 {
			if let Some((_, _, name, _)) = self.scopes.iter().find(|(a, b, _, c)| ws >= *a && we <= *b && ws < *c).cloned() {
				// is the operand itself an operation of that batch?  (those are covered by S1)
				let on_batch = match &*t.expr {
					syn::Expr::MethodCall(mc) => matches!(&*mc.receiver, syn::Expr::Path(p) if p.path.is_ident(&name)) && BATCH_WRITES.contains(&mc.method.to_string().as_str()),
					_ => false,
				};
				if !on_batch {
					// S2 / L18: `E?` desugared (Rust reference) so that the early exit can carry the ghost fact that the
					// still-uncommitted batch is abandoned
					let (es, ee) = br(t.expr.span());
					self.push(ws, we, vec![
						Part::Text("(match ".into()), Part::Src(es, ee),
						Part::Text(format!(" {{ Ok(vx_ok) => vx_ok, Err(vx_err) => {{ proof {{ vf_batch_abandoned(&*{}); }} return Err(core::convert::From::from(vx_err)); }} }})", name)),
					], "S2");
				}
			}
		}
		syn::visit::visit_expr_try(self, t);
	}
	fn visit_expr_return(&mut self, r: &'ast syn::ExprReturn) {
		let (ws, we) = br(r.span());
		if self.closure_depth == 0 {
			if let Some((_, _, name, _)) = self.scopes.iter().find(|(a, b, _, c)| ws >= *a && we <= *b && ws < *c).cloned() {
				self.push(ws, ws, vec![Part::Text(format!("{{ proof {{ vf_batch_abandoned(&*{}); }} ", name))], "S2");
				self.push(we, we, vec![Part::Text(" }".into())], "S2");
			}
		}
		syn::visit::visit_expr_return(self, r);
	}
	fn visit_expr_method_call(&mut self, mc: &'ast syn::ExprMethodCall) {
		let m = mc.method.to_string();
		let (ws, we) = br(mc.span());
		if BATCH_WRITES.contains(&m.as_str()) {
			if let syn::Expr::Path(p) = &*mc.receiver {
				if p.path.segments.len() == 1 && p.path.segments[0].ident.to_string().contains("batch") {
					self.batch_ops.push((ws, we, m.clone()));
				}
			}
		}
		if (m == "to_string" || m == "to_owned") && mc.args.is_empty() {
			if let syn::Expr::Lit(syn::ExprLit { lit: syn::Lit::Str(_), .. }) = &*mc.receiver {
				// L13: "literal".to_string() / .to_owned()
				let (rs, re) = br(mc.receiver.span());
				self.push(ws, we, vec![Part::Text("vf_str_to_string(".into()), Part::Src(rs, re), Part::Text(")".into())], "L13");
				return;
			}
		}
		if m == "collect" && mc.args.is_empty() && self.cfg.filter_loop.is_some() {
			if let syn::Expr::MethodCall(fl) = &*mc.receiver {
				if fl.method == "filter" && fl.args.len() == 1 {
					if let (syn::Expr::MethodCall(it), syn::Expr::Closure(c)) = (&*fl.receiver, &fl.args[0]) {
						if it.method == "into_iter" && it.args.is_empty() && c.inputs.len() == 1 {
							let twc = self.cfg.filter_loop.clone().unwrap();
							let (xs, xe) = br(it.receiver.span());
							let (ps, pe) = br(c.inputs[0].span());
							let (bs, be) = br(c.body.span());
							let mut parts = vec![
								Part::Text("{ let vx_src = ".to_string()), Part::Src(xs, xe),
								Part::Text("; let mut vx_fl = Vec::new(); let mut vx_fli: usize = 0;\nwhile vx_fli < vx_src.len()\n".to_string()),
							];
							let mut inv = vec![Clause::Plain("vx_fli <= vx_src.len()".to_string())];
							inv.extend(twc.invariant.iter().cloned());
							parts.extend(self.clause_parts("invariant", "invariant", &inv, "        "));
							parts.push(Part::Text(format!("\n        decreases vx_src.len() - vx_fli,\n    {{\n{}\nlet ", twc.proof_body_start.clone().unwrap_or_default())));
							parts.push(Part::Src(ps, pe));
							parts.push(Part::Text(" = &vx_src[vx_fli];\nlet vx_keep: bool = ".to_string()));
							parts.push(Part::Src(bs, be));
							parts.push(Part::Text(";\nif vx_keep { vx_fl.push(vf_clone(".to_string()));
							parts.push(Part::Src(ps, pe));
							parts.push(Part::Text(format!(")); }}\nvx_fli = vx_fli + 1;\n{}\n}}\n{}\nvx_fl }}", twc.proof_body_end.clone().unwrap_or_default(), twc.proof_after.clone().unwrap_or_default())));
							self.push(ws, we, parts, "L26");
							syn::visit::visit_expr(self, &it.receiver);
							syn::visit::visit_expr(self, &c.body);
							return;
						}
					}
				}
			}
			die(&format!("{}: filter lowering (L26) configured but no `X.into_iter().filter(|P| B).collect()` found in that shape", self.fname));
		}
		if m == "collect" && mc.args.is_empty() && self.cfg.take_while.is_some() {
			// L26 (see FnCfg::take_while)
			if let syn::Expr::MethodCall(cl) = &*mc.receiver {
				if cl.method == "cloned" && cl.args.is_empty() {
					if let syn::Expr::MethodCall(tw) = &*cl.receiver {
						if tw.method == "take_while" && tw.args.len() == 1 {
							if let (syn::Expr::MethodCall(it), syn::Expr::Closure(c)) = (&*tw.receiver, &tw.args[0]) {
								if it.method == "iter" && it.args.is_empty() && c.inputs.len() == 1 {
									let twc = self.cfg.take_while.clone().unwrap();
									let (xs, xe) = br(it.receiver.span());
									let (ps, pe) = br(c.inputs[0].span());
									let (bs, be) = br(c.body.span());
									let x_text = oneline(&self.src[xs..xe]);
									let mut parts = vec![
										Part::Text("{ let mut vx_tw = Vec::new(); let mut vx_twi: usize = 0;\nwhile vx_twi < ".to_string()),
										Part::Src(xs, xe), Part::Text(".len()\n".to_string()),
									];
									let mut inv = vec![Clause::Plain(format!("vx_twi <= {}.len()", x_text)), Clause::Plain(format!("vx_tw@ == {}@.take(vx_twi as int)", x_text))];
									inv.extend(twc.invariant.iter().cloned());
									parts.extend(self.clause_parts("invariant_except_break", "invariant", &twc.invariant_except_break, "        "));
									parts.extend(self.clause_parts("invariant", "invariant", &inv, "        "));
									parts.extend(self.clause_parts("ensures", "invariant", &twc.ensures, "        "));
									parts.push(Part::Text(format!("\n        decreases {}.len() - vx_twi,\n    {{\n{}\nlet ", x_text, twc.proof_body_start.clone().unwrap_or_default())));
									parts.push(Part::Src(ps, pe));
									parts.push(Part::Text(" = &".to_string()));
									parts.push(Part::Src(xs, xe));
									parts.push(Part::Text("[vx_twi];\nlet vx_keep: bool = ".to_string()));
									parts.push(Part::Src(bs, be));
									parts.push(Part::Text(";\nif !vx_keep { break; }\nvx_tw.push(vf_clone(".to_string()));
									parts.push(Part::Src(ps, pe));
									parts.push(Part::Text(format!(")); vx_twi = vx_twi + 1;\n}}\n{}\nvx_tw }}", twc.proof_after.clone().unwrap_or_default())));
									self.push(ws, we, parts, "L26");
									syn::visit::visit_expr(self, &c.body);
									return;
								}
							}
						}
					}
				}
			}
			die(&format!("{}: take_while lowering (L26) configured but no `X.iter().take_while(|P| B).cloned().collect()` found in that shape", self.fname));
		}
		if m == "copy_from_slice" && mc.args.len() == 1 {
			// L16: X.copy_from_slice(Y) panics unless the lengths are equal
			let (rs, re) = br(mc.receiver.span());
			let (as_, ae) = br(mc.args[0].span());
			self.push(ws, we, vec![Part::Text("vf_copy_from_slice(&mut ".into()), Part::Src(rs, re), Part::Text(", ".into()), Part::Src(as_, ae), Part::Text(")".into())], "L16");
			syn::visit::visit_expr(self, &mc.receiver);
			syn::visit::visit_expr(self, &mc.args[0]);
			return;
		}
		syn::visit::visit_expr_method_call(self, mc);
	}
	fn visit_expr_reference(&mut self, r: &'ast syn::ExprReference) {
		// L15: `&X[a..b]` — slicing panics unless a <= b <= len
		if r.mutability.is_none() {
			if let syn::Expr::Index(ix) = &*r.expr {
				if let syn::Expr::Range(rg) = &*ix.index {
					let (ws, we) = br(r.span());
					self.range_index(ix, rg, ws, we, false);
					return;
				}
			}
		}
		syn::visit::visit_expr_reference(self, r);
	}
	fn visit_expr_index(&mut self, ix: &'ast syn::ExprIndex) {
		if let syn::Expr::Range(rg) = &*ix.index {
			let (ws, we) = br(ix.span());
			self.range_index(ix, rg, ws, we, true);
			return;
		}
		syn::visit::visit_expr_index(self, ix);
	}
	fn visit_expr_closure(&mut self, c: &'ast syn::ExprClosure) {
		self.closure_ord += 1;
		let ord = self.closure_ord;
		let cfg = self.cfg.closures.iter().find(|x| x.ordinal == ord).cloned();
		// L14: Verus rejects `_` as a closure parameter: give it a name (unused)
		if cfg.as_ref().map(|c| c.params.is_none()).unwrap_or(true) {
			for (k, inp) in c.inputs.iter().enumerate() {
				let pat = match inp {
					syn::Pat::Type(pt) => &*pt.pat,
					p => p,
				};
				if let syn::Pat::Wild(w) = pat {
					let (a, b) = br(w.span());
					self.push(a, b, vec![Part::Text(format!("_vx{}_{}", ord, k))], "L14");
				}
			}
		}
		if let Some(cc) = cfg {
			let (o1, _) = br(c.or1_token.span());
			let (_, o2) = br(c.or2_token.span());
			if let Some(p) = &cc.params {
				self.push(o1, o2, vec![Part::Text(p.clone())], "A3");
			}
			let mut parts = vec![];
			if let Some(r) = &cc.ret {
				parts.push(Part::Text(format!(" -> {}", r)));
			}
			parts.extend(self.clause_parts("requires", "closure_requires", &cc.requires, "            "));
			parts.extend(self.clause_parts("ensures", "closure_ensures", &cc.ensures, "            "));
			let (bs, be) = br(c.body.span());
			let is_block = matches!(&*c.body, syn::Expr::Block(_));
			// the annotation goes right after the closing `|` (or after an existing `-> T`)
			let ins = match &c.output {
				syn::ReturnType::Default => o2,
				syn::ReturnType::Type(_, t) => br(t.span()).1,
			};
			if !is_block {
				parts.push(Part::Text(" { ".to_string()));
				self.push(ins, ins, parts, "A3");
				self.push(be, be, vec![Part::Text(" }".to_string())], "A3");
				let _ = bs;
			} else {
				parts.push(Part::Text(" ".to_string()));
				self.push(ins, ins, parts, "A3");
			}
		}
		self.closure_depth += 1;
		syn::visit::visit_expr_closure(self, c);
		self.closure_depth -= 1;
	}
}

// ---------------------------------------------------------------- item lookup

fn norm(s: &str) -> String {
	s.chars().filter(|c| !c.is_whitespace()).collect()
}

fn type_last_ident(t: &syn::Type) -> String {
	match t {
		syn::Type::Path(p) => p
			.path
			.segments
			.last()
			.map(|s| s.ident.to_string())
			.unwrap_or_default(),
		syn::Type::Reference(r) => type_last_ident(&r.elem),
		_ => String::new(),
	}
}

enum Found<'a> {
	Fn(&'a syn::ItemFn),
	Struct(&'a syn::ItemStruct),
	Enum(&'a syn::ItemEnum),
	Const(&'a syn::ItemConst),
	Type(&'a syn::ItemType),
	Impl(&'a syn::ItemImpl, Option<Vec<String>>),
	Macro(&'a syn::ItemMacro),
}

fn find_item<'a>(items: &'a [syn::Item], path: &str) -> Option<Found<'a>> {
	let path = path.trim();
	// `mod NAME :: <path>`: look the rest up inside that inline module only
	if path.starts_with("mod ") {
		let i = path.find("::")?;
		let mname = path[4..i].trim();
		let rest = path[i + 2..].trim();
		for it in items {
			if let syn::Item::Mod(m) = it {
				if m.ident == mname {
					if let Some((_, sub)) = &m.content {
						return find_item(sub, rest);
					}
				}
			}
		}
		return None;
	}
	let (head, sel) = match path.find("::") {
		Some(i) if path.starts_with("impl ") => (path[..i].trim(), Some(path[i + 2..].trim())),
		_ => (path, None),
	};
	let words: Vec<&str> = head.split_whitespace().collect();
	for it in items {
		match (words.as_slice(), it) {
			(["fn", n], syn::Item::Fn(f)) if f.sig.ident == n => return Some(Found::Fn(f)),
			(["struct", n], syn::Item::Struct(s)) if s.ident == n => return Some(Found::Struct(s)),
			(["enum", n], syn::Item::Enum(s)) if s.ident == n => return Some(Found::Enum(s)),
			(["const", n], syn::Item::Const(s)) if s.ident == n => return Some(Found::Const(s)),
			(["type", n], syn::Item::Type(s)) if s.ident == n => return Some(Found::Type(s)),
			(["macro", n], syn::Item::Macro(m))
				if m.ident.as_ref().map(|i| i == n).unwrap_or(false) =>
			{
				return Some(Found::Macro(m))
			}
			(["impl", ty], syn::Item::Impl(i))
				if i.trait_.is_none() && type_last_ident(&i.self_ty) == *ty =>
			{
				let methods = sel.map(parse_sel);
				// an inherent impl is only a match if it contains every selected method
				if let Some(ms) = &methods {
					let has_all = ms.iter().all(|m| {
						i.items.iter().any(|ii| matches!(ii, syn::ImplItem::Fn(f) if f.sig.ident == m))
					});
					if !has_all {
						continue;
					}
				}
				return Some(Found::Impl(i, methods));
			}
			(["impl", tr, "for", ty], syn::Item::Impl(i)) => {
				if let Some((_, p, _)) = &i.trait_ {
					let tn = norm(&quote::quote!(#p).to_string());
					let tl = p.segments.last().map(|s| s.ident.to_string()).unwrap_or_default();
					let self_n = norm(&{
						let t = &i.self_ty;
						quote::quote!(#t).to_string()
					});
					if (tn == norm(tr) || tl == *tr)
						&& (self_n == norm(ty) || type_last_ident(&i.self_ty) == *ty)
					{
						return Some(Found::Impl(i, sel.map(parse_sel)));
					}
				}
			}
			_ => {}
		}
	}
	// descend into inline modules
	for it in items {
		if let syn::Item::Mod(m) = it {
			if let Some((_, sub)) = &m.content {
				if let Some(f) = find_item(sub, path) {
					return Some(f);
				}
			}
		}
	}
	None
}

fn parse_sel(s: &str) -> Vec<String> {
	let s = s.trim().trim_start_matches("fn").trim();
	s.split(',').map(|x| x.trim().to_string()).filter(|x| !x.is_empty()).collect()
}

// ---------------------------------------------------------------- per-item rendering

struct Ctx<'a> {
	self_ty_span: Option<(usize, usize)>,
	mode: &'a str,
	canary: bool,
	canary_fns: Option<Vec<String>>,
	out: Out,
	rules: BTreeMap<String, usize>,
	dropped_calls: Vec<String>,
	items_meta: Vec<serde_json::Value>,
	files: Vec<String>,
	tok_verbatim: usize,
	tok_src_total: usize,
	fn_meta: Vec<serde_json::Value>,
	/// P1: recorded parameter names ("<file>::<qualified fn>" -> names) and the names seen in this run
	param_names: BTreeMap<String, Vec<String>>,
	fn_params: Vec<(String, Vec<String>)>,
	cur_file: String,
	cur_item: String,
	/// I1: per source file, the inlinable helper functions
	helpers: BTreeMap<String, BTreeMap<String, Helper>>,
}

fn count_tokens(s: &str) -> usize {
	// lexical tokens by proc_macro2 where the text lexes, otherwise words
	match s.parse::<proc_macro2::TokenStream>() {
		Ok(ts) => count_ts(ts),
		Err(_) => s.split_whitespace().count(),
	}
}
fn count_ts(ts: proc_macro2::TokenStream) -> usize {
	let mut n = 0;
	for t in ts {
		match t {
			proc_macro2::TokenTree::Group(g) => n += 2 + count_ts(g.stream()),
			_ => n += 1,
		}
	}
	n
}

fn apply_replaces(src: &str, lo: usize, hi: usize, reps: &[ReplaceCfg], edits: &mut Vec<Edit>, rules: &mut BTreeMap<String, usize>, seq: &mut usize) {
	for r in reps {
		let re = Regex::new(&r.pattern).unwrap_or_else(|e| die(&format!("bad regex {}: {}", r.pattern, e)));
		let text = &src[lo..hi];
		let mut n = 0;
		for caps in re.captures_iter(text) {
			let m = caps.get(0).unwrap();
			n += 1;
			// template: $1..$9 → Src(group)
			let mut parts = vec![];
			let mut rest = r.with.as_str();
			while let Some(i) = rest.find('$') {
				let d = rest[i + 1..].chars().next();
				if let Some(dc) = d {
					if dc.is_ascii_digit() {
						let gi = dc.to_digit(10).unwrap() as usize;
						parts.push(Part::Text(rest[..i].to_string()));
						if let Some(g) = caps.get(gi) {
							parts.push(Part::Src(lo + g.start(), lo + g.end()));
						}
						rest = &rest[i + 2..];
						continue;
					}
				}
				parts.push(Part::Text(rest[..i + 1].to_string()));
				rest = &rest[i + 1..];
			}
			parts.push(Part::Text(rest.to_string()));
			*seq += 1;
			*rules.entry(r.rule.clone()).or_insert(0) += 1;
			edits.push(Edit {
				start: lo + m.start(),
				end: lo + m.end(),
				parts,
				rule: r.rule.clone(),
				seq: *seq,
			});
		}
		// The expected counts document the unchanged tree. A different count on a changed tree is NOT fatal: the idiom may
		// simply have been rewritten; whatever is left un-lowered is either accepted by Verus or ends in exit 2 there.
		if let Some(c) = r.count {
			if n != c {
				eprintln!("vx: note: lowering {} pattern /{}/ matched {} times, expected {}", r.rule, r.pattern, n, c);
				*rules.entry("count-drift".to_string()).or_insert(0) += 1;
			}
		}
		if let Some(c) = r.min {
			if n < c {
				eprintln!("vx: note: lowering {} pattern /{}/ matched {} times, expected >= {}", r.rule, r.pattern, n, c);
				*rules.entry("count-drift".to_string()).or_insert(0) += 1;
			}
		}
	}
}

const GHOST_PREFIXES: &[&str] = &["proof {", "proof{", "let ghost ", "let tracked ", "assert(", "assert "];

#[allow(clippy::too_many_arguments)]
fn fn_edits(
	ctx: &mut Ctx,
	src: &str,
	name: &str,
	attrs: &[syn::Attribute],
	sig: &syn::Signature,
	block: &syn::Block,
	cfg: &FnCfg,
	item_reps: &[ReplaceCfg],
	whole: (usize, usize),
	edits: &mut Vec<Edit>,
	in_trait_impl: bool,
	stub: Option<String>,
	qual: &str,
) {
	let mark_base = ctx.out.marks.len();
	let mut v = FnVisitor {
		src,
		fname: name.to_string(),
		cfg,
		mode: ctx.mode,
		edits: vec![],
		marks: vec![],
		mark_base,
		loop_ord: 0,
		closure_ord: 0,
		rules: BTreeMap::new(),
		dropped_calls: vec![],
		seq: edits.len() * 1000,
		loops_seen: vec![],
		loop_bodies: vec![],
		stmts: vec![],
		strip_async: sig.asyncness.is_some(),
		batch_ops: vec![],
		tried: vec![],
		scopes: {
			let mut bs = BatchScopes::default();
			bs.visit_block(block);
			bs.scopes
		},
		closure_depth: 0,
		writeback: vec![],
		helpers: ctx.helpers.get(&ctx.cur_file).cloned().unwrap_or_default(),
	};
	for a in attrs {
		v.visit_attribute(a);
	}
	// D3: async fn → fn
	if let Some(a) = &sig.asyncness {
		let (s, e) = br(a.span());
		v.push(s, e, vec![], "D3");
	}
	// attributes on parameters
	for inp in &sig.inputs {
		match inp {
			syn::FnArg::Typed(pt) => {
				for a in &pt.attrs {
					v.visit_attribute(a);
				}
			}
			syn::FnArg::Receiver(r) => {
				for a in &r.attrs {
					v.visit_attribute(a);
				}
			}
		}
	}
	// P1: parameter names. The sidecar text names parameters; when the code renames one (typically `x` -> `_x` after its last use
	// was removed) the recorded name (contracts/param_names.json, generated from the pinned tree) is restored by alpha-renaming the
	// parameter and every identifier token of that name in the function, provided the recorded name is not otherwise used there.
	let actual: Vec<Option<String>> = sig.inputs.iter().filter_map(|i| match i {
		syn::FnArg::Typed(pt) => Some(match &*pt.pat { syn::Pat::Ident(pi) => Some(pi.ident.to_string()), _ => None }),
		syn::FnArg::Receiver(_) => None,
	}).collect();
	ctx.fn_params.push((qual.to_string(), actual.iter().map(|a| a.clone().unwrap_or_default()).collect()));
	if let Some(expected) = ctx.param_names.get(&format!("{}::{}::{}", ctx.cur_file, ctx.cur_item, name)).cloned() {
		if expected.len() == actual.len() {
			struct Idents { all: Vec<(String, usize, usize)> }
			impl<'ast> Visit<'ast> for Idents {
				fn visit_ident(&mut self, i: &'ast proc_macro2::Ident) { let (a, b) = br(i.span()); self.all.push((i.to_string(), a, b)); }
			}
			let mut ids = Idents { all: vec![] };
			ids.visit_signature(sig);
			ids.visit_block(block);
			for (exp, act) in expected.iter().zip(actual.iter()) {
				if let Some(act) = act {
					if act != exp && !exp.is_empty() && !ids.all.iter().any(|(n, _, _)| n == exp) {
						for (n, a, b) in ids.all.iter() {
							if n == act {
								v.push(*a, *b, vec![Part::Text(exp.clone())], "P1");
							}
						}
						eprintln!("vx: note: parameter `{}` of {} restored to its recorded name `{}`", act, name, exp);
					}
				}
			}
		}
	}
	// A5 attributes
	let mut attr_text = String::new();
	for a in &cfg.attrs {
		attr_text.push_str(&format!("#[{}]\n", a));
	}
	if let Some(h) = &stub {
		attr_text.push_str(&format!("// CONTRACT-STUB: body not in this unit; contract proved in unit `{}`\n#[verifier::external_body]\n", h));
	}
	if !attr_text.is_empty() {
		v.push(whole.0, whole.0, vec![Part::Text(attr_text)], if stub.is_some() { "STUB" } else { "A5" });
	}
	// A1 result name
	let resname = cfg.ret.clone().unwrap_or_else(|| "res".to_string());
	if let syn::ReturnType::Type(_, ty) = &sig.output {
		let (s, e) = br(ty.span());
		// R2: `Self` in the return type of a trait-impl method emitted as a free function is the impl's self type
		let (ts, te) = match (&**ty, ctx.self_ty_span) {
			(syn::Type::Path(tp), Some(sp)) if tp.path.is_ident("Self") => sp,
			_ => (s, e),
		};
		v.push(
			s,
			e,
			vec![
				Part::Text(format!("({}: ", resname)),
				Part::Src(ts, te),
				Part::Text(")".to_string()),
			],
			"A1",
		);
	}
	// A1 contract before the body
	let (bs, be) = br(block.span());
	let mut parts = vec![];
	if !in_trait_impl {
		parts.extend(v.clause_parts("requires", "requires", &cfg.requires, "    "));
	} else if !cfg.requires.is_empty() {
		die(&format!("{}: requires on a trait impl method is not allowed", name));
	}
	let mut ens = cfg.ensures.clone();
	if ctx.canary && !cfg.no_canary && stub.is_none() && ctx.canary_fns.as_ref().map(|v| v.iter().any(|x| x == name || x == qual)).unwrap_or(true) {
		ens.push(Clause::Full {
			label: Some("__canary".to_string()),
			props: None,
			clause: "false".to_string(),
			mode: None,
		});
	}
	parts.extend(v.clause_parts("ensures", "ensures", &ens, "    "));
	if let Some(d) = &cfg.decreases {
		parts.push(Part::Text(format!("\n    decreases {},\n", d)));
	}
	if !parts.is_empty() {
		v.push(bs, bs, parts, "A1");
	}
	if stub.is_some() {
		v.edits.push(Edit { start: bs, end: be, parts: vec![Part::Text("{ unimplemented!() }".to_string())], rule: "STUB".into(), seq: usize::MAX / 2 });
	} else {
		v.visit_block(block);
	}

	// A4 proof insertions
	for p in cfg.proofs.iter().filter(|_| stub.is_none()) {
		if let Some(m) = &p.mode {
			if m != ctx.mode {
				continue;
			}
		}
		let t = p.text.trim();
		if !GHOST_PREFIXES.iter().any(|g| t.starts_with(g)) {
			die(&format!("{}: inserted text must be ghost (proof/let ghost/assert): {}", name, t));
		}
		let pos = if let Some(pref) = &p.stmt_prefix {
			let want = oneline(pref);
			let nth = p.nth.unwrap_or(1);
			let mut hits: Vec<(usize, usize)> = v
				.stmts
				.iter()
				.filter(|(s, e)| oneline(&src[*s..*e]).starts_with(&want))
				.cloned()
				.collect();
			hits.sort();
			if hits.len() < nth {
				// relaxed match: the statement may have been edited (an operator, an argument): shorten the prefix token by
				// token (not below two tokens / 10 characters) until exactly `nth` candidates exist
				let toks: Vec<&str> = want.split(' ').collect();
				let mut k = toks.len();
				while hits.len() < nth && k > 2 {
					k -= 1;
					let w = toks[..k].join(" ");
					if w.len() < 10 { break; }
					let mut h2: Vec<(usize, usize)> = v.stmts.iter().filter(|(s, e)| oneline(&src[*s..*e]).starts_with(&w)).cloned().collect();
					h2.sort();
					if h2.len() == nth { hits = h2; eprintln!("vx: note: anchor `{}` matched by its prefix `{}`", pref, w); }
				}
			}
			if hits.len() < nth {
				// the anchored statement is gone: the obligations stand without this hint (recorded; never fatal)
				eprintln!("vx: note: hint anchor `{}` #{} lost in {}", pref, nth, name);
				*v.rules.entry("hint-anchor-lost".to_string()).or_insert(0) += 1;
				continue;
			}
			let (s, e) = hits[nth - 1];
			match p.pos.as_str() {
				"before" => s,
				"after" => e,
				x => die(&format!("bad pos {}", x)),
			}
		} else if let Some(lo) = p.loop_ {
			let l = v.loops_seen.iter().find(|l| l.0 == lo).cloned();
			let b = v.loop_bodies.iter().find(|l| l.0 == lo).cloned();
			match (l, b) {
				(Some(l), Some(b)) => match p.pos.as_str() {
					"before" => l.1,
					"after" => l.3,
					"body_start" => b.1,
					"body_end" => b.2,
					x => die(&format!("bad pos {}", x)),
				},
				_ => { eprintln!("vx: note: hint anchor loop {} lost in {}", lo, name); *v.rules.entry("hint-anchor-lost".to_string()).or_insert(0) += 1; continue; }
			}
		} else {
			match p.pos.as_str() {
				"fn_start" => bs + 1,
				"fn_end" => be - 1,
				x => die(&format!("bad pos {}", x)),
			}
		};
		v.push(pos, pos, vec![Part::Text(format!("\n{}\n", t))], "A4");
	}
	// S1 (mechanical soundness condition of the store contract): the result of every write-batch operation is
	// propagated with `?` — only then does "operation failed ⇒ nothing is committed" describe the code
	for (a, b, m) in &v.batch_ops {
		if !v.tried.iter().any(|(x, y)| x == a && y == b) {
			die(&format!("{}: S1 violated: result of batch.{}(..) is not propagated with `?`", name, m));
		}
	}
	if !v.batch_ops.is_empty() {
		*v.rules.entry("S1-checked".to_string()).or_insert(0) += v.batch_ops.len();
	}
	// check every configured loop / closure ordinal exists
	for l in cfg.loops.iter().filter(|_| stub.is_none()) {
		if l.ordinal == 0 || l.ordinal > v.loop_ord {
			eprintln!("vx: note: loop {} of the sidecar no longer exists in {} (fn has {})", l.ordinal, name, v.loop_ord);
			*v.rules.entry("hint-anchor-lost".to_string()).or_insert(0) += 1;
		}
	}
	for c in cfg.closures.iter().filter(|_| stub.is_none()) {
		if c.ordinal == 0 || c.ordinal > v.closure_ord {
			eprintln!("vx: note: closure {} of the sidecar no longer exists in {} (fn has {})", c.ordinal, name, v.closure_ord);
			*v.rules.entry("hint-anchor-lost".to_string()).or_insert(0) += 1;
		}
	}
	let mut seq = v.seq + 1;
	let mut rules = v.rules.clone();
	let _ = item_reps;
	let all_reps = cfg.replace.clone();
	let mut es = v.edits.clone();
	if stub.is_none() {
		apply_replaces(src, whole.0, whole.1, &all_reps, &mut es, &mut rules, &mut seq);
	}
	for (k, n) in rules {
		*ctx.rules.entry(k).or_insert(0) += n;
	}
	ctx.dropped_calls.extend(v.dropped_calls.iter().cloned());
	ctx.out.marks.extend(v.marks.into_iter());
	let params_now: Vec<String> = ctx.fn_params.iter().rev().find(|(q, _)| q == qual).map(|(_, p)| p.clone()).unwrap_or_default();
	ctx.fn_meta.push(json!({"name": name, "vx_qual": qual, "params": params_now, "loops": v.loop_ord, "closures": v.closure_ord,
		"safety_props": cfg.safety_props, "src_range": [whole.0, whole.1], "stub": stub}));
	edits.extend(es);
}

fn derive_list(attrs: &[syn::Attribute]) -> Vec<String> {
	let mut v = vec![];
	for a in attrs {
		if a.path().is_ident("derive") {
			let _ = a.parse_nested_meta(|m| {
				if let Some(i) = m.path.segments.last() {
					v.push(i.ident.to_string());
				}
				Ok(())
			});
		}
	}
	v
}

fn main() {
	let args: Vec<String> = std::env::args().collect();
	let mut repo = "/repo".to_string();
	let mut unit_path = String::new();
	let mut out_path = String::new();
	let mut meta_path = String::new();
	let mut mode = "full".to_string();
	let mut canary = false;
	let mut raw = false;
	let mut canary_fns: Option<Vec<String>> = None;
	let mut prelude_dir = "/verif/prelude".to_string();
	let mut i = 1;
	while i < args.len() {
		match args[i].as_str() {
			"--repo" => {
				repo = args[i + 1].clone();
				i += 1
			}
			"--unit" => {
				unit_path = args[i + 1].clone();
				i += 1
			}
			"--out" => {
				out_path = args[i + 1].clone();
				i += 1
			}
			"--meta" => {
				meta_path = args[i + 1].clone();
				i += 1
			}
			"--mode" => {
				mode = args[i + 1].clone();
				i += 1
			}
			"--prelude-dir" => {
				prelude_dir = args[i + 1].clone();
				i += 1
			}
			"--canary" => canary = true,
			"--raw" => raw = true,
			"--canary-fns" => {
				canary = true;
				canary_fns = Some(args[i + 1].split(',').map(|x| x.to_string()).collect());
				i += 1
			}
			x => die(&format!("unknown arg {}", x)),
		}
		i += 1;
	}
	let cfg_text = std::fs::read_to_string(&unit_path).unwrap_or_else(|e| die(&format!("{}: {}", unit_path, e)));
	let mut cfg: UnitCfg = toml::from_str(&cfg_text).unwrap_or_else(|e| die(&format!("{}: {}", unit_path, e)));
	{
		let dir = std::path::Path::new(&unit_path).parent().unwrap().to_path_buf();
		let mut inc_items = vec![];
		let mut inc_spec = String::new();
		let mut inc_prelude: Vec<String> = vec![];
		for inc in cfg.include.clone() {
			let ip = dir.join("inc").join(format!("{}.toml", inc.file));
			let t = std::fs::read_to_string(&ip).unwrap_or_else(|e| die(&format!("{}: {}", ip.display(), e)));
			let ic: UnitCfg = toml::from_str(&t).unwrap_or_else(|e| die(&format!("{}: {}", ip.display(), e)));
			for p in ic.prelude.iter().filter(|_| !inc.no_prelude).cloned() {
				if !inc_prelude.contains(&p) && !cfg.prelude.contains(&p) {
					inc_prelude.push(p);
				}
			}
			if !ic.spec.is_empty() && !inc.no_spec {
				inc_spec.push_str(&format!("// ---- spec of include `{}`\n", inc.file));
				inc_spec.push_str(&ic.spec);
				inc_spec.push('\n');
			}
			for mut it in ic.item {
				if let Some(only) = &inc.only {
					if !only.contains(&it.path) {
						continue;
					}
				}
				if inc.except.contains(&it.path) {
					continue;
				}
				if inc.verify.contains(&it.path) {
					it.stub = false;
				} else if inc.stub {
					it.stub = true;
					it.stub_home = Some(ic.home.clone().unwrap_or_else(|| inc.file.clone()));
				}
				inc_items.push(it);
			}
		}
		let mut pl = cfg.prelude.clone();
		pl.extend(inc_prelude);
		cfg.prelude = pl;
		cfg.spec = format!("{}{}", inc_spec, cfg.spec);
		inc_items.extend(cfg.item.clone());
		cfg.item = inc_items;
	}

	let mut ctx = Ctx {
		mode: &mode,
		canary,
		self_ty_span: None,
		canary_fns: canary_fns.clone(),
		out: Out {
			buf: String::new(),
			segs: vec![],
			marks: vec![],
		},
		rules: BTreeMap::new(),
		dropped_calls: vec![],
		items_meta: vec![],
		files: vec![],
		tok_verbatim: 0,
		tok_src_total: 0,
		fn_meta: vec![],
		param_names: {
			let p = std::path::Path::new(&unit_path).parent().map(|d| if d.ends_with("inc") { d.parent().unwrap().to_path_buf() } else { d.to_path_buf() }).unwrap_or_default().join("param_names.json");
			std::fs::read_to_string(&p).ok().and_then(|t| serde_json::from_str(&t).ok()).unwrap_or_default()
		},
		fn_params: vec![],
		cur_file: String::new(),
		cur_item: String::new(),
		helpers: BTreeMap::new(),
	};
	if !raw { ctx.out.buf.push_str(&format!(
		"// GENERATED by /verif/tools/vx from {} (mode={}{}) — do not edit\n#![allow(unused)]\nuse vstd::prelude::*;\nuse std::collections::HashMap;\nuse std::collections::HashSet;\nuse std::marker::PhantomData;\nverus! {{\n",
		unit_path,
		mode,
		if canary { ", canary" } else { "" }
	)); } else { ctx.out.buf.push_str("// RAW extraction by /verif/tools/vx (verbatim item text; only attributes/doc comments and logging statements dropped)\n"); }
	let mut prelude_ranges = vec![];
	for p in cfg.prelude.iter().filter(|_| !raw) {
		let pp = format!("{}/{}", prelude_dir, p);
		let t = std::fs::read_to_string(&pp).unwrap_or_else(|e| die(&format!("{}: {}", pp, e)));
		let s = ctx.out.buf.len();
		ctx.out.buf.push_str(&format!("// ---- prelude: {}\n", p));
		ctx.out.buf.push_str(&t);
		ctx.out.buf.push('\n');
		prelude_ranges.push(json!({"file": p, "out_start": s, "out_end": ctx.out.buf.len()}));
	}
	let spec_start = ctx.out.buf.len();
	if !cfg.spec.is_empty() && !raw {
		ctx.out.buf.push_str("// ---- unit spec (hand-written: spec fns, lemmas, assumed stubs)\n");
		ctx.out.buf.push_str(&cfg.spec);
		ctx.out.buf.push('\n');
	}
	let spec_end = ctx.out.buf.len();

	// L6 guard: the template above must be the repository's macro definition
	if let Ok(lib) = std::fs::read_to_string(format!("{}/libwallet/src/lib.rs", repo)) {
		let n: String = lib.chars().filter(|c| !c.is_whitespace()).collect();
		let want = "macro_rules!wallet_lock{($wallet_inst:expr,$wallet:ident)=>{letinst=$wallet_inst.clone();letmutw_lock=inst.lock();letw_provider=w_lock.lc_provider()?;let$wallet=w_provider.wallet_inst()?;};}";
		if !n.contains(want) && cfg_text.contains("wallet_lock") {
			die("L6: wallet_lock! definition in libwallet/src/lib.rs differs from the lowering template");
		}
	}
	let mut sources: BTreeMap<String, (String, syn::File)> = BTreeMap::new();
	for it in &cfg.item {
		if !sources.contains_key(&it.file) {
			let fp = format!("{}/{}", repo, it.file);
			let s = std::fs::read_to_string(&fp).unwrap_or_else(|e| die(&format!("{}: {}", fp, e)));
			let f = syn::parse_file(&s).unwrap_or_else(|e| die(&format!("{}: parse error {}", fp, e)));
			sources.insert(it.file.clone(), (s, f));
			ctx.files.push(it.file.clone());
		}
	}
	// I1: candidate helpers = free fns of the source files that the unit does not extract and whose name is defined nowhere in the
	// unit's own text (prelude, spec, tail)
	{
		let mut defined: std::collections::BTreeSet<String> = std::collections::BTreeSet::new();
		let fn_re = Regex::new(r"\bfn\s+([A-Za-z_][A-Za-z0-9_]*)").unwrap();
		for c in fn_re.captures_iter(&ctx.out.buf) { defined.insert(c[1].to_string()); }
		for c in fn_re.captures_iter(&cfg.tail) { defined.insert(c[1].to_string()); }
		for it in &cfg.item {
			let p = it.path.trim();
			let tail = p.rsplit("::").next().unwrap_or(p).trim();
			if let Some(rest) = tail.strip_prefix("fn ") { for n in rest.split(',') { defined.insert(n.trim().to_string()); } }
			if let Some(f) = &it.as_free { defined.insert(f.clone()); }
		}
		for (fname, (src, file)) in sources.iter() {
			let mut hs: BTreeMap<String, Helper> = BTreeMap::new();
			for item in &file.items {
				if let syn::Item::Fn(f) = item {
					let name = f.sig.ident.to_string();
					if defined.contains(&name) || !f.sig.generics.params.is_empty() || f.sig.asyncness.is_some() { continue; }
					let mut params = vec![];
					let mut ok = true;
					for inp in &f.sig.inputs {
						match inp {
							syn::FnArg::Typed(pt) => match &*pt.pat {
								syn::Pat::Ident(pi) if pi.by_ref.is_none() && pi.subpat.is_none() => {
									let (ts, te) = br(pt.ty.span());
									params.push((format!("{}{}", if pi.mutability.is_some() { "mut " } else { "" }, pi.ident), src[ts..te].to_string()));
								}
								_ => ok = false,
							},
							_ => ok = false,
						}
					}
					let (bs, be) = br(f.block.span());
					let body = &src[bs..be];
					let word = Regex::new(r"\breturn\b").unwrap();
					if !ok || word.is_match(body) || body.contains('?') { continue; }
					hs.insert(name, Helper { params, body: (bs, be) });
				}
			}
			ctx.helpers.insert(fname.clone(), hs);
		}
	}
	for it in &cfg.item {
		let (src, file) = sources.get(&it.file).unwrap();
		let file_idx = ctx.files.iter().position(|f| *f == it.file).unwrap();
		ctx.cur_file = it.file.clone();
		ctx.cur_item = it.path.clone();
		let found = find_item(&file.items, &it.path)
			.unwrap_or_else(|| die(&format!("item `{}` not found in {}", it.path, it.file)));
		let out_start = ctx.out.buf.len();
		ctx.out
			.buf
			.push_str(&format!("// ---- item: {} :: {}\n", it.file, it.path));
		let mut edits: Vec<Edit> = vec![];
		let mut pre = String::new();
		let mut post = String::new();
		for a in &it.attrs {
			pre.push_str(&format!("#[{}]\n", a));
		}
		let mut ranges: Vec<(usize, usize)> = vec![];
		let fn_meta_start = ctx.fn_meta.len();
		let mut seq = 0usize;
		let src_span: (usize, usize);
		match found {
			Found::Fn(f) => {
				let whole = br(f.span());
				src_span = whole;
				let name = f.sig.ident.to_string();
				let fc = it.fns.get(&name).cloned().unwrap_or_default();
				let stub = if it.stub { Some(it.stub_home.clone().unwrap_or_default()) } else { None };
				if matches!(f.vis, syn::Visibility::Inherited) {
					let a = f.sig.constness.map(|c| br(c.span()).0).or(f.sig.asyncness.map(|c| br(c.span()).0)).unwrap_or(br(f.sig.fn_token.span()).0);
					edits.push(Edit { start: a, end: a, parts: vec![Part::Text("pub ".into())], rule: "A5".into(), seq: usize::MAX / 4 });
				}
				// R2: a function of an inline module is emitted under a unit-wide unique name
				let eff_name = it.as_free.clone().unwrap_or(name.clone());
				if let Some(free) = &it.as_free {
					let (a, b) = br(f.sig.ident.span());
					edits.push(Edit { start: a, end: b, parts: vec![Part::Text(free.clone())], rule: "R2".into(), seq: 0 });
					*ctx.rules.entry("R2".into()).or_insert(0) += 1;
				}
				fn_edits(&mut ctx, src, &eff_name, &f.attrs, &f.sig, &f.block, &fc, &it.replace, whole, &mut edits, false, stub, &eff_name);
				ranges.push(whole);
			}
			Found::Impl(im, sel) => {
				let whole = br(im.span());
				src_span = whole;
				for a in &im.attrs {
					let (s, e) = br(a.span());
					edits.push(Edit { start: s, end: e, parts: vec![], rule: "D1".into(), seq: 0 });
					*ctx.rules.entry("D1".into()).or_insert(0) += 1;
				}
				let (bo, _) = br(im.brace_token.span.open());
				let (bc, _) = br(im.brace_token.span.close());
				// header `impl … {`
				let hdr_start = im.attrs.last().map(|a| br(a.span()).1).unwrap_or(whole.0);
				if it.as_inherent {
					if let Some((_, p, f)) = &im.trait_ {
						let (ps, _) = br(p.span());
						let (_, fe) = br(f.span());
						edits.push(Edit { start: ps, end: fe, parts: vec![], rule: "R1".into(), seq: 0 });
						*ctx.rules.entry("R1".into()).or_insert(0) += 1;
					}
				}
				if it.as_free.is_none() {
					ranges.push((hdr_start, bo + 1));
				} else {
					*ctx.rules.entry("R2".into()).or_insert(0) += 1;
				}
				let mut found_names = vec![];
				for ii in &im.items {
					match ii {
						syn::ImplItem::Fn(f) => {
							let name = f.sig.ident.to_string();
							if let Some(s) = &sel {
								if !s.contains(&name) {
									continue;
								}
							}
							found_names.push(name.clone());
							let w = br(f.span());
							let fc = it.fns.get(&name).cloned().unwrap_or_default();
							let stub = if it.stub { Some(it.stub_home.clone().unwrap_or_default()) } else { None };
							if let Some(free) = &it.as_free {
								let (a, b) = br(f.sig.ident.span());
								edits.push(Edit { start: a, end: b, parts: vec![Part::Text(free.clone())], rule: "R2".into(), seq: 0 });
							}
							if matches!(f.vis, syn::Visibility::Inherited) && (im.trait_.is_none() || it.as_inherent || it.as_free.is_some()) {
								let a = f.sig.constness.map(|c| br(c.span()).0).or(f.sig.asyncness.map(|c| br(c.span()).0)).unwrap_or(br(f.sig.fn_token.span()).0);
								edits.push(Edit { start: a, end: a, parts: vec![Part::Text("pub ".into())], rule: "A5".into(), seq: usize::MAX / 4 });
							}
							let self_ty = match &*im.self_ty {
								syn::Type::Path(tp) => tp.path.segments.last().map(|s| s.ident.to_string()).unwrap_or_default(),
								_ => String::new(),
							};
							let eff_name = it.as_free.clone().unwrap_or(name.clone());
							let qual = if it.as_free.is_some() { eff_name.clone() } else { format!("{}::{}", self_ty, name) };
							ctx.self_ty_span = if it.as_free.is_some() { Some(br(im.self_ty.span())) } else { None };
							fn_edits(&mut ctx, src, &eff_name, &f.attrs, &f.sig, &f.block, &fc, &it.replace, w, &mut edits, im.trait_.is_some() && !it.as_inherent && it.as_free.is_none(), stub, &qual);
							ranges.push(w);
						}
						syn::ImplItem::Type(t) if sel.is_none() => ranges.push(br(t.span())),
						syn::ImplItem::Const(t) if sel.is_none() => ranges.push(br(t.span())),
						_ => {}
					}
				}
				if let Some(s) = &sel {
					for n in s {
						if !found_names.contains(n) {
							die(&format!("method {} not found in `{}`", n, it.path));
						}
					}
				}
				if it.as_free.is_none() {
					ranges.push((bc, bc + 1));
				}
			}
			Found::Struct(s) => {
				let whole = br(s.span());
				src_span = whole;
				// A5: visibility widened to pub (type and fields) so that specs may mention them
				if matches!(s.vis, syn::Visibility::Inherited) {
					let (a, _) = br(s.struct_token.span());
					edits.push(Edit { start: a, end: a, parts: vec![Part::Text("pub ".into())], rule: "A5".into(), seq: 0 });
				}
				for f in s.fields.iter() {
					if matches!(f.vis, syn::Visibility::Inherited) {
						let a = match &f.ident { Some(i) => br(i.span()).0, None => br(f.ty.span()).0 };
						edits.push(Edit { start: a, end: a, parts: vec![Part::Text("pub ".into())], rule: "A5".into(), seq: 0 });
					}
				}
				let ds = it.derive.clone().unwrap_or_default();
				if !ds.is_empty() {
					pre.push_str(&format!("#[derive({})]\n", ds.join(", ")));
				}
				let d = derive_list(&s.attrs);
				if d.iter().any(|x| x == "Clone") && !ds.iter().any(|x| x == "Clone") && !it.no_clone_spec {
					let (ig, tg, wc) = s.generics.split_for_impl();
					post.push_str(&format!(
						"// A-clone (assumed): derived Clone returns an equal value\nimpl{} Clone for {}{} {} {{\n    #[verifier::external_body]\n    fn clone(&self) -> (r: Self) ensures r == *self {{ unimplemented!() }}\n}}\n",
						quote::quote!(#ig), s.ident, quote::quote!(#tg), quote::quote!(#wc)
					));
					*ctx.rules.entry("A-clone".into()).or_insert(0) += 1;
				}
				for a in &s.attrs {
					let (x, y) = br(a.span());
					edits.push(Edit { start: x, end: y, parts: vec![], rule: "D1".into(), seq: 0 });
					*ctx.rules.entry("D1".into()).or_insert(0) += 1;
				}
				for f in s.fields.iter() {
					for a in &f.attrs {
						let (x, y) = br(a.span());
						edits.push(Edit { start: x, end: y, parts: vec![], rule: "D1".into(), seq: 0 });
						*ctx.rules.entry("D1".into()).or_insert(0) += 1;
					}
				}
				ranges.push(whole);
			}
			Found::Enum(s) => {
				let whole = br(s.span());
				src_span = whole;
				if matches!(s.vis, syn::Visibility::Inherited) {
					let (a, _) = br(s.enum_token.span());
					edits.push(Edit { start: a, end: a, parts: vec![Part::Text("pub ".into())], rule: "A5".into(), seq: 0 });
				}
				let ds = it.derive.clone().unwrap_or_else(|| {
					let d = derive_list(&s.attrs);
					let mut keep: Vec<String> = d
						.iter()
						.filter(|x| ["Copy", "PartialEq", "Eq"].contains(&x.as_str()))
						.cloned()
						.collect();
					if d.iter().any(|x| x == "Copy") {
						keep.insert(0, "Clone".into());
					}
					if keep.contains(&"PartialEq".to_string()) && keep.contains(&"Eq".to_string()) {
						keep.push("Structural".into());
					}
					keep
				});
				if !ds.is_empty() {
					pre.push_str(&format!("#[derive({})]\n", ds.join(", ")));
				}
				let d = derive_list(&s.attrs);
				if d.iter().any(|x| x == "Clone") && !d.iter().any(|x| x == "Copy") && !it.no_clone_spec {
					post.push_str(&format!(
						"// A-clone (assumed): derived Clone returns an equal value\nimpl Clone for {} {{\n    #[verifier::external_body]\n    fn clone(&self) -> (r: Self) ensures r == *self {{ unimplemented!() }}\n}}\n",
						s.ident
					));
					*ctx.rules.entry("A-clone".into()).or_insert(0) += 1;
				}
				for a in &s.attrs {
					let (x, y) = br(a.span());
					edits.push(Edit { start: x, end: y, parts: vec![], rule: "D1".into(), seq: 0 });
					*ctx.rules.entry("D1".into()).or_insert(0) += 1;
				}
				for var in s.variants.iter() {
					for a in &var.attrs {
						let (x, y) = br(a.span());
						edits.push(Edit { start: x, end: y, parts: vec![], rule: "D1".into(), seq: 0 });
						*ctx.rules.entry("D1".into()).or_insert(0) += 1;
					}
					for f in var.fields.iter() {
						for a in &f.attrs {
							let (x, y) = br(a.span());
							edits.push(Edit { start: x, end: y, parts: vec![], rule: "D1".into(), seq: 0 });
							*ctx.rules.entry("D1".into()).or_insert(0) += 1;
						}
					}
				}
				ranges.push(whole);
			}
			Found::Const(c) => {
				let whole = br(c.span());
				src_span = whole;
				for a in &c.attrs {
					let (x, y) = br(a.span());
					edits.push(Edit { start: x, end: y, parts: vec![], rule: "D1".into(), seq: 0 });
				}
				ranges.push(whole);
			}
			Found::Type(c) => {
				let whole = br(c.span());
				src_span = whole;
				for a in &c.attrs {
					let (x, y) = br(a.span());
					edits.push(Edit { start: x, end: y, parts: vec![], rule: "D1".into(), seq: 0 });
				}
				ranges.push(whole);
			}
			Found::Macro(m) => {
				let whole = br(m.span());
				src_span = whole;
				ranges.push(whole);
			}
		}
		if !it.stub || !matches!(find_item(&file.items, &it.path), Some(Found::Fn(_)) | Some(Found::Impl(..))) {
			seq += 1_000_000;
			apply_replaces(src, src_span.0, src_span.1, &it.replace, &mut edits, &mut ctx.rules, &mut seq);
		}
		// an explicit sidecar replacement of a whole `format!(..)` wins over the automatic `vf_format()` lowering of that macro
		{
			let snapshot = edits.clone();
			edits.retain(|e| {
				let auto_fmt = e.rule == "L1" && e.parts.len() == 1 && matches!(&e.parts[0], Part::Text(t) if t == "vf_format()");
				let keep1 = !(auto_fmt && snapshot.iter().any(|o| (o.start, o.end, o.seq) != (e.start, e.end, e.seq) && o.start <= e.start && e.end <= o.end && !(o.parts.len() == 1 && matches!(&o.parts[0], Part::Text(t) if t == "vf_format()"))));
				// likewise the automatic `matches!` lowering (L7) inside an explicit sidecar replacement (seq >= 1_000_000) of the whole macro call
				let auto_l7 = e.rule == "L7" && e.seq < 1_000_000;
				let keep2 = !(auto_l7 && snapshot.iter().any(|o| o.seq >= 1_000_000 && o.start <= e.start && e.end <= o.end));
				keep1 && keep2
			});
		}
		if raw {
			edits.retain(|e| e.rule == "D1" || e.rule == "D2");
			pre.clear();
			post.clear();
		}
		ctx.out.buf.push_str(&pre);
		let mut r = Renderer::new(src, file_idx, edits.clone());
		let seg_start = ctx.out.segs.len();
		for (a, b) in &ranges {
			r.render(*a, *b, &mut ctx.out, true);
			ctx.out.buf.push('\n');
		}
		ctx.out.buf.push_str(&post);
		// every edit must have been applied exactly once
		for (k, d) in r.done.iter().enumerate() {
			if !*d {
				let e = &r.edits[k];
				// edits outside the rendered ranges (e.g. attrs on unselected methods) are fine
				let nested = r.edits.iter().enumerate().any(|(j, o)| j != k && r.done[j] && o.start <= e.start && e.end <= o.end && (o.end - o.start) > (e.end - e.start));
				if nested && e.rule.starts_with('A') && ranges.iter().any(|(a, b)| e.start >= *a && e.end <= *b) {
					die(&format!("annotation edit {} at {}..{} is swallowed by a lowering replacement (sidecar pattern too wide)", e.rule, e.start, e.end));
				}
				if !nested && ranges.iter().any(|(a, b)| e.start >= *a && e.end <= *b) {
					die(&format!("internal: edit {:?} at {}..{} not applied (overlap)", e.rule, e.start, e.end));
				}
			}
		}
		// token accounting
		let mut verb = 0;
		for (os, oe, _, _) in &ctx.out.segs[seg_start..] {
			verb += count_tokens(&ctx.out.buf[*os..*oe]);
		}
		let mut total = 0;
		for (a, b) in &ranges {
			total += count_tokens(&src[*a..*b]);
		}
		ctx.tok_verbatim += verb;
		ctx.tok_src_total += total;
		let line_of = |off: usize| src[..off].matches('\n').count() + 1;
		let fns: Vec<serde_json::Value> = ctx.fn_meta[fn_meta_start..].to_vec();
		ctx.items_meta.push(json!({
			"file": it.file, "path": it.path,
			"src_lines": [line_of(src_span.0), line_of(src_span.1)],
			"out_start": out_start, "out_end": ctx.out.buf.len(),
			"tokens_src": total, "tokens_verbatim": verb,
			"fns": fns,
		}));
	}
	let tail_start = ctx.out.buf.len();
	if !cfg.tail.is_empty() && !raw {
		ctx.out.buf.push_str("// ---- unit tail (hand-written: witness calls, lemmas)\n");
		ctx.out.buf.push_str(&cfg.tail);
		ctx.out.buf.push('\n');
	}
	if !raw {
		for l in &cfg.lemma {
			ctx.out.buf.push_str(&format!("// ---- lemma over the contracts above (hand-written proof; clauses from the sidecar)\npub proof fn {}({})\n", l.name, l.params));
			for (kw, cls) in [("requires", &l.requires), ("ensures", &l.ensures)] {
				let mut owned: Vec<Clause> = cls.iter().filter(|c| c.active(&mode)).cloned().collect();
				if kw == "ensures" && ctx.canary && ctx.canary_fns.as_ref().map(|v| v.iter().any(|x| x == &l.name)).unwrap_or(true) {
					owned.push(Clause::Full { label: Some("__canary".to_string()), props: None, clause: "false".to_string(), mode: None });
				}
				let act: Vec<&Clause> = owned.iter().collect();
				if act.is_empty() {
					continue;
				}
				ctx.out.buf.push_str(&format!("    {}\n", kw));
				for c in act {
					ctx.out.buf.push_str("        ");
					let st = ctx.out.buf.len();
					ctx.out.buf.push_str(&oneline(c.text()));
					let en = ctx.out.buf.len();
					ctx.out.buf.push_str(",\n");
					ctx.out.marks.push(MarkInfo { kind: kw.to_string(), func: l.name.clone(), label: c.label(), props: c.props(), text: c.text().to_string(), out_start: st, out_end: en });
				}
			}
			if let Some(d) = &l.decreases {
				ctx.out.buf.push_str(&format!("    decreases {},\n", d));
			}
			ctx.out.buf.push_str("{\n");
			ctx.out.buf.push_str(&l.body);
			ctx.out.buf.push_str("\n}\n");
		}
		ctx.out.buf.push_str("\n} // verus!\nfn main() {}\n");
	}

	std::fs::write(&out_path, &ctx.out.buf).unwrap_or_else(|e| die(&format!("{}: {}", out_path, e)));

	// line table for out offsets
	let line_of_out = |off: usize| ctx.out.buf[..off.min(ctx.out.buf.len())].matches('\n').count() + 1;
	let marks: Vec<serde_json::Value> = ctx
		.out
		.marks
		.iter()
		.filter(|m| m.out_start != usize::MAX)
		.map(|m| {
			json!({"kind": m.kind, "fn": m.func, "label": m.label, "props": m.props, "text": m.text,
			"out_start": m.out_start, "out_end": m.out_end, "out_line": line_of_out(m.out_start)})
		})
		.collect();
	let segs: Vec<serde_json::Value> = ctx
		.out
		.segs
		.iter()
		.map(|(os, oe, fi, ss)| {
			let (src, _) = sources.get(&ctx.files[*fi]).unwrap();
			let sl = src[..*ss].matches('\n').count() + 1;
			json!({"out_start": os, "out_end": oe, "file": ctx.files[*fi], "src_start": ss, "src_line": sl, "out_line": line_of_out(*os)})
		})
		.collect();
	let meta = json!({
		"unit": cfg.unit, "properties": cfg.properties, "mode": mode, "canary": canary,
		"out": out_path, "prelude": prelude_ranges,
		"spec_range": [spec_start, spec_end], "tail_start": tail_start,
		"items": ctx.items_meta, "marks": marks, "segments": segs,
		"lemmas": cfg.lemma.iter().map(|l| l.name.clone()).collect::<Vec<_>>(),
		"rules": ctx.rules, "dropped_macro_calls": ctx.dropped_calls,
		"tokens": {"src_total": ctx.tok_src_total, "verbatim": ctx.tok_verbatim},
	});
	std::fs::write(&meta_path, serde_json::to_string_pretty(&meta).unwrap()).unwrap();
}
