fn main(){ let s: syn::File = syn::parse_str("fn a(){}").unwrap(); println!("{}", s.items.len()); let sp = proc_macro2::Span::call_site(); let _ = sp.byte_range(); }
