// ===== prelude/ring.rs — TRUSTED BASE: base64 / hex / ring::aead / serde_json as opaque total functions =====
pub struct DecodeError { pub c: u8 }
pub mod base64 { pub use crate::base64_decode as decode; }
pub uninterp spec fn spec_b64_bytes(s: String) -> Option<Seq<u8>>;
#[verifier::external_body]
pub fn base64_decode(s: &String) -> (r: Result<Vec<u8>, DecodeError>)
    ensures r matches Ok(v) ==> spec_b64_bytes(*s) == Some(v@), spec_b64_bytes(*s) is Some ==> r is Ok { unimplemented!() }
// hex text <-> bytes (A-hex: to_hex / from_hex are mutually inverse on what to_hex produces)
pub uninterp spec fn spec_hex_bytes(s: String) -> Option<Seq<u8>>;
#[verifier::external_body]
pub fn from_hex(s: &String) -> (r: Result<Vec<u8>, DecodeError>)
    ensures r matches Ok(v) ==> spec_hex_bytes(*s) == Some(v@), spec_hex_bytes(*s) is Some ==> r is Ok { unimplemented!() }
#[verifier::external_body]
pub fn vf_to_hex(b: &[u8]) -> (r: String) ensures spec_hex_bytes(r) == Some(b@) { unimplemented!() }
// `thread_rng().gen::<[u8; N]>()`
#[verifier::external_body]
pub fn vf_random_bytes<const N: usize>() -> (r: [u8; N]) { unimplemented!() }
pub struct Value { pub v: u8 }
pub mod serde_json { pub use crate::json_from_str as from_str; }
#[verifier::external_body]
pub fn json_from_str(s: &String) -> (r: Result<Value, DecodeError>)
    ensures r matches Ok(v) ==> v == spec_json_parse(*s) { unimplemented!() }
pub uninterp spec fn spec_json_parse(s: String) -> Value;
pub uninterp spec fn spec_utf8(b: Seq<u8>) -> String;
#[verifier::external_body]
pub fn vf_string_from_utf8(b: Vec<u8>) -> (r: Result<String, DecodeError>)
    ensures r matches Ok(s) ==> s == spec_utf8(b@) { unimplemented!() }
// AES-256-GCM (ring::aead): the opening key authenticates nonce ‖ ciphertext ‖ tag
pub uninterp spec fn aead_open_ok(key: Seq<u8>, nonce: Seq<u8>, ct: Seq<u8>) -> bool;
pub uninterp spec fn aead_plain(key: Seq<u8>, nonce: Seq<u8>, ct: Seq<u8>) -> Seq<u8>;
pub struct Unspecified { pub c: u8 }
#[verifier::external]
impl core::fmt::Debug for Unspecified { fn fmt(&self, f: &mut core::fmt::Formatter<'_>) -> core::fmt::Result { Ok(()) } }
pub struct Algorithm { pub tag: usize }
impl Algorithm {
    #[verifier::external_body]
    pub fn tag_len(&self) -> (r: usize) ensures r == 16 { unimplemented!() }
    #[verifier::external_body]
    pub fn key_len(&self) -> (r: usize) ensures r == 32 { unimplemented!() }
}
pub struct UnboundKey { pub k: Ghost<Seq<u8>> }
pub struct LessSafeKey { pub k: Ghost<Seq<u8>> }
pub struct Nonce { pub n: Ghost<Seq<u8>> }
pub struct Aad { pub a: u8 }
pub mod aead {
    pub use crate::UnboundKey; pub use crate::LessSafeKey; pub use crate::Nonce; pub use crate::Aad;
    pub use crate::AES_256_GCM;
}
pub exec const AES_256_GCM: Algorithm = Algorithm { tag: 16 };
impl UnboundKey {
    // Err only for a key of the wrong length
    #[verifier::external_body]
    pub fn new(alg: &Algorithm, key: &[u8; 32]) -> (r: Result<UnboundKey, Unspecified>)
        ensures r matches Ok(k) && k.k@ == key@ { unimplemented!() }
}
impl LessSafeKey {
    #[verifier::external_body]
    pub fn new(k: UnboundKey) -> (r: LessSafeKey) ensures r.k@ == k.k@ { unimplemented!() }
    // on Ok the buffer holds plaintext ‖ tag-sized tail (the code pops tag_len bytes afterwards)
    #[verifier::external_body]
    pub fn open_in_place(&self, nonce: Nonce, aad: Aad, in_out: &mut Vec<u8>) -> (r: Result<(), Unspecified>)
        ensures (r is Ok) == aead_open_ok(self.k@, nonce.n@, old(in_out)@),
            r is Ok ==> final(in_out)@.len() == old(in_out)@.len() && old(in_out)@.len() >= 16
                && final(in_out)@.subrange(0, old(in_out)@.len() - 16) == aead_plain(self.k@, nonce.n@, old(in_out)@),
    { unimplemented!() }
    // seal: buffer := ciphertext ‖ tag; A-aead: what seal produces opens, under the same key and nonce, to what was sealed
    #[verifier::external_body]
    pub fn seal_in_place_append_tag(&self, nonce: Nonce, aad: Aad, in_out: &mut Vec<u8>) -> (r: Result<(), Unspecified>)
        ensures r is Ok ==> aead_open_ok(self.k@, nonce.n@, final(in_out)@) && aead_plain(self.k@, nonce.n@, final(in_out)@) == old(in_out)@
    { unimplemented!() }
}
impl Nonce {
    #[verifier::external_body]
    pub fn assume_unique_for_key(n: [u8; 12]) -> (r: Nonce) ensures r.n@ == n@ { unimplemented!() }
}
impl Aad {
    #[verifier::external_body]
    pub fn from(a: &[u8; 0]) -> (r: Aad) { unimplemented!() }
}
// String::len (byte length)
pub uninterp spec fn spec_string_byte_len(s: String) -> usize;
pub assume_specification [ String::len ] (s: &String) -> (r: usize) ensures r == spec_string_byte_len(*s);
