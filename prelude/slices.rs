// ===== prelude/slices.rs — TRUSTED BASE: L15/L16 slice indexing and copying (std semantics incl. panics) =====
// `Out` is what `&x[a..b]` yields: `[T]` for vectors / arrays / slices, `str` for `str` / `String`; `cut_ok` is the extra panic
// condition of the type (for strings: both ends on UTF-8 character boundaries).
pub trait VfSliceable<T> {
    type Out: ?Sized;
    spec fn sl_view(&self) -> Seq<T>;
    spec fn cut_ok(&self, a: int, b: int) -> bool;
}
impl<T> VfSliceable<T> for Vec<T> { type Out = [T]; open spec fn sl_view(&self) -> Seq<T> { self@ } open spec fn cut_ok(&self, a: int, b: int) -> bool { true } }
impl<T> VfSliceable<T> for [T] { type Out = [T]; open spec fn sl_view(&self) -> Seq<T> { self@ } open spec fn cut_ok(&self, a: int, b: int) -> bool { true } }
impl<T, const N: usize> VfSliceable<T> for [T; N] { type Out = [T]; open spec fn sl_view(&self) -> Seq<T> { self@ } open spec fn cut_ok(&self, a: int, b: int) -> bool { true } }
impl<T, S: VfSliceable<T> + ?Sized> VfSliceable<T> for &S { type Out = S::Out; open spec fn sl_view(&self) -> Seq<T> { (**self).sl_view() } open spec fn cut_ok(&self, a: int, b: int) -> bool { (**self).cut_ok(a, b) } }
// the element view of what a cut yields
pub trait VfView<T> { spec fn vw(&self) -> Seq<T>; }
impl<T> VfView<T> for [T] { open spec fn vw(&self) -> Seq<T> { self@ } }
impl VfView<u8> for str { open spec fn vw(&self) -> Seq<u8> { self.sl_view() } }
// byte index i of the text is a UTF-8 character boundary (0 and len always are)
pub uninterp spec fn spec_char_boundary(bytes: Seq<u8>, i: int) -> bool;
impl VfSliceable<u8> for String { type Out = str; uninterp spec fn sl_view(&self) -> Seq<u8>; open spec fn cut_ok(&self, a: int, b: int) -> bool { spec_char_boundary(self.sl_view(), a) && spec_char_boundary(self.sl_view(), b) } }
impl VfSliceable<u8> for str { type Out = str; uninterp spec fn sl_view(&self) -> Seq<u8>; open spec fn cut_ok(&self, a: int, b: int) -> bool { spec_char_boundary(self.sl_view(), a) && spec_char_boundary(self.sl_view(), b) } }
// `&x[a..b]`: panics unless a <= b <= len (and, for strings, both ends are character boundaries)
#[verifier::external_body]
pub fn vf_slice<T, S: VfSliceable<T> + ?Sized>(s: &S, a: usize, b: usize) -> (r: &S::Out)
    where S::Out: VfView<T>
    requires a <= b <= s.sl_view().len(), s.cut_ok(a as int, b as int)
    ensures r.vw() == s.sl_view().subrange(a as int, b as int)
{ unimplemented!() }
#[verifier::external_body]
pub fn vf_slice_from<T, S: VfSliceable<T> + ?Sized>(s: &S, a: usize) -> (r: &S::Out)
    where S::Out: VfView<T>
    requires a <= s.sl_view().len(), s.cut_ok(a as int, s.sl_view().len() as int)
    ensures r.vw() == s.sl_view().subrange(a as int, s.sl_view().len() as int)
{ unimplemented!() }
#[verifier::external_body]
pub fn vf_slice_to<T, S: VfSliceable<T> + ?Sized>(s: &S, b: usize) -> (r: &S::Out)
    where S::Out: VfView<T>
    requires b <= s.sl_view().len(), s.cut_ok(0, b as int)
    ensures r.vw() == s.sl_view().subrange(0, b as int)
{ unimplemented!() }
#[verifier::external_body]
pub fn vf_slice_full<T, S: VfSliceable<T> + ?Sized>(s: &S) -> (r: &S::Out)
    where S::Out: VfView<T>
    ensures r.vw() == s.sl_view()
{ unimplemented!() }
// `dst.copy_from_slice(src)`: panics unless the lengths are equal
pub trait VfSliceMut<T> {
    spec fn slm_view(&self) -> Seq<T>;
}
impl<T> VfSliceMut<T> for Vec<T> { open spec fn slm_view(&self) -> Seq<T> { self@ } }
impl<T, const N: usize> VfSliceMut<T> for [T; N] { open spec fn slm_view(&self) -> Seq<T> { self@ } }
#[verifier::external_body]
pub fn vf_copy_from_slice<T: Copy, D: VfSliceMut<T>>(dst: &mut D, src: &[T])
    requires old(dst).slm_view().len() == src@.len()
    ensures final(dst).slm_view() == src@
{ unimplemented!() }
