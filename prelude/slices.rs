// ===== prelude/slices.rs — TRUSTED BASE: L15/L16 slice indexing and copying (std semantics incl. panics) =====
pub trait VfSliceable<T> {
    spec fn sl_view(&self) -> Seq<T>;
}
impl<T> VfSliceable<T> for Vec<T> { open spec fn sl_view(&self) -> Seq<T> { self@ } }
impl<T> VfSliceable<T> for [T] { open spec fn sl_view(&self) -> Seq<T> { self@ } }
impl<T, const N: usize> VfSliceable<T> for [T; N] { open spec fn sl_view(&self) -> Seq<T> { self@ } }
impl<T, S: VfSliceable<T> + ?Sized> VfSliceable<T> for &S { open spec fn sl_view(&self) -> Seq<T> { (**self).sl_view() } }
impl VfSliceable<u8> for String { uninterp spec fn sl_view(&self) -> Seq<u8>; }
impl VfSliceable<u8> for str { uninterp spec fn sl_view(&self) -> Seq<u8>; }
// `&x[a..b]`: panics unless a <= b <= len
#[verifier::external_body]
pub fn vf_slice<T, S: VfSliceable<T> + ?Sized>(s: &S, a: usize, b: usize) -> (r: &[T])
    requires a <= b <= s.sl_view().len()
    ensures r@ == s.sl_view().subrange(a as int, b as int)
{ unimplemented!() }
#[verifier::external_body]
pub fn vf_slice_from<T, S: VfSliceable<T> + ?Sized>(s: &S, a: usize) -> (r: &[T])
    requires a <= s.sl_view().len()
    ensures r@ == s.sl_view().subrange(a as int, s.sl_view().len() as int)
{ unimplemented!() }
#[verifier::external_body]
pub fn vf_slice_to<T, S: VfSliceable<T> + ?Sized>(s: &S, b: usize) -> (r: &[T])
    requires b <= s.sl_view().len()
    ensures r@ == s.sl_view().subrange(0, b as int)
{ unimplemented!() }
#[verifier::external_body]
pub fn vf_slice_full<T, S: VfSliceable<T> + ?Sized>(s: &S) -> (r: &[T])
    ensures r@ == s.sl_view()
{ unimplemented!() }
// `dst.copy_from_slice(src)`: panics unless the lengths are equal
pub trait VfSliceMut<T> {
    spec fn slm_view(&self) -> Seq<T>;
}
impl<T> VfSliceMut<T> for Vec<T> { open spec fn slm_view(&self) -> Seq<T> { self@ } }
impl<T, const N: usize> VfSliceMut<T> for [T; N] { open spec fn slm_view(&self) -> Seq<T> { self@ } }
#[verifier::external_body]
pub fn vf_copy_from_slice<T: Copy, D: VfSliceMut<T>>(dst: &mut D, src: &[T])
    requires old(dst).slm_view().len() == src@.len()
    ensures final(dst).slm_view() == src@
{ unimplemented!() }
