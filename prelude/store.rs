// ===== prelude/store.rs — TRUSTED BASE: abstract wallet store =====
// Contract of `WalletBackend` / `WalletOutputBatch` (libwallet/src/types.rs) over a ghost
// state. Method names, receivers, parameter and result types are those of the repo's traits
// (only `iter`-style methods return the prelude's VIter<T> instead of Box<dyn Iterator>).
// The contract is what LMDB gives: keyed records, a batch is one write transaction that
// becomes visible atomically on commit. Every method may fail (I/O) unless stated.

pub type OutKey = (Identifier, Option<u64>);

pub ghost struct WalletState {
    pub outputs: Map<OutKey, OutputData>,            // 'o' key_id[+mmr_index]
    pub tx_log: Map<(Identifier, u32), TxLogEntry>,  // 't' parent + id
    pub next_log: Map<Identifier, u32>,              // 'i' next tx-log id of a parent
    pub child_idx: Map<Identifier, u32>,             // 'd' next child index of a parent
    pub contexts: Map<Seq<u8>, Context>,             // 'p' private contexts by slate id
    pub conf_height: Map<Identifier, u64>,           // 'c'
    pub parent: Identifier,                          // active account
    pub accounts: Map<Seq<char>, AcctPathMapping>,   // 'a' label -> path
    // not stored in the database: the in-memory keychain and which mask tokens unlock it (C14)
    pub has_keychain: bool,
    pub valid_masks: Set<Option<SecretKey>>,
}
pub open spec fn opt_key(m: Option<&SecretKey>) -> Option<SecretKey> { match m { Some(k) => Some(*k), None => None } }

pub open spec fn out_key(o: OutputData) -> OutKey { (o.key_id, o.mmr_index) }

// A sequence enumerating the values of a keyed table in storage order (LMDB cursor order):
// every record exactly once, each stored under the key derived from its own fields.
pub open spec fn enumerates_outputs(s: Seq<OutputData>, m: Map<OutKey, OutputData>) -> bool {
    &&& forall|i: int| 0 <= i < s.len() ==> #[trigger] m.dom().contains(out_key(s[i])) && m[out_key(s[i])] == s[i]
    &&& forall|k: OutKey| #[trigger] m.dom().contains(k) ==> exists|i: int| 0 <= i < s.len() && s[i] == m[k]
    &&& forall|i: int, j: int| 0 <= i < j < s.len() ==> #[trigger] out_key(s[i]) != #[trigger] out_key(s[j])
}
// storage (cursor) order is a function of the table's content
pub uninterp spec fn seq_of_outputs(m: Map<OutKey, OutputData>) -> Seq<OutputData>;
pub uninterp spec fn seq_of_log(m: Map<(Identifier, u32), TxLogEntry>) -> Seq<TxLogEntry>;
// the account mappings in storage order (a function of the table, like the two above)
pub uninterp spec fn seq_of_accounts(m: Map<Seq<char>, AcctPathMapping>) -> Seq<AcctPathMapping>;
// (axiom) the storage-order enumeration lists every record exactly once
#[verifier::external_body]
pub proof fn axiom_seq_of_log(m: Map<(Identifier, u32), TxLogEntry>) ensures enumerates_log(seq_of_log(m), m) { }
#[verifier::external_body]
pub proof fn axiom_seq_of_outputs(m: Map<OutKey, OutputData>) ensures enumerates_outputs(seq_of_outputs(m), m) { }
pub open spec fn log_key(t: TxLogEntry) -> (Identifier, u32) { (t.parent_key_id, t.id) }
pub open spec fn enumerates_log(s: Seq<TxLogEntry>, m: Map<(Identifier, u32), TxLogEntry>) -> bool {
    &&& forall|i: int| 0 <= i < s.len() ==> #[trigger] m.dom().contains(log_key(s[i])) && m[log_key(s[i])] == s[i]
    &&& forall|k: (Identifier, u32)| #[trigger] m.dom().contains(k) ==> exists|i: int| 0 <= i < s.len() && s[i] == m[k]
    &&& forall|i: int, j: int| 0 <= i < j < s.len() ==> #[trigger] log_key(s[i]) != #[trigger] log_key(s[j])
}

// every record is stored under the key derived from its own fields (holds by construction of
// `save`/`save_tx_log_entry`, which compute the key from the record)
pub open spec fn keys_wf(s: WalletState) -> bool {
    &&& forall|k: OutKey| #[trigger] s.outputs.dom().contains(k) ==> out_key(s.outputs[k]) == k
    &&& forall|k: (Identifier, u32)| #[trigger] s.tx_log.dom().contains(k) ==> log_key(s.tx_log[k]) == k
}

// the cached commitment of a record is either hex text or can be recomputed (definition; used as a precondition)
pub open spec fn commit_cache_wf(o: OutputData) -> bool { (o.commit matches Some(c) ==> spec_is_hex(c)) && (o.commit is None ==> spec_commit_defined(o.value, o.key_id)) }
// well-formed store (definition; a precondition of every refresh): records stored under their own keys, caches well formed
pub open spec fn store_wf(s: WalletState) -> bool {
    keys_wf(s) && forall|k: OutKey| #[trigger] s.outputs.dom().contains(k) ==> commit_cache_wf(s.outputs[k])
}
// account labels scan invents: "account_<n>", different numbers give different labels
pub uninterp spec fn spec_account_label(n: int) -> Seq<char>;
#[verifier::external_body]
pub proof fn axiom_account_label_injective(a: int, b: int) ensures spec_account_label(a) == spec_account_label(b) ==> a == b { }
// A-accounts (assumption on the stored account table): a mapping is stored under its own label (save_acct_path is the only writer),
// no stored account is called "account_<n>" for an n of 2^24 or more, and there are at most 2^24 accounts
pub open spec fn accounts_ok(s: WalletState) -> bool {
    &&& forall|l: Seq<char>| #[trigger] s.accounts.dom().contains(l) ==> s.accounts[l].label@ == l
    &&& forall|n: int| n >= 0x100_0000 ==> !s.accounts.dom().contains(#[trigger] spec_account_label(n))
    &&& seq_of_accounts(s.accounts).len() <= 0x100_0000
}
// A-log-amounts (assumption on stored log entries; a consequence of C01 for the entries the wallet itself writes): a debiting entry
// debits at least its fee more than it credits
pub open spec fn entry_amounts_ok(t: TxLogEntry) -> bool {
    t.amount_credited >= t.amount_debited || t.amount_debited - t.amount_credited >= (match t.fee { Some(f) => f.raw & 0xFF_FFFF_FFFF, None => 0u64 })
}
pub open spec fn log_amounts_ok(s: WalletState) -> bool { forall|k: (Identifier, u32)| #[trigger] s.tx_log.dom().contains(k) ==> entry_amounts_ok(s.tx_log[k]) }
// spec_child_id(parent, n) (prelude/ext.rs) is injective in n for a fixed parent of depth < 4
pub proof fn lemma_child_id_injective(p: Identifier, a: u32, b: u32)
    requires spec_path_depth(p) < 4
    ensures spec_child_id(p, a) == spec_child_id(p, b) ==> a == b
{
    axiom_path_len(p);
    let d = spec_path_depth(p);
    let sa = spec_path_seq(p).update(d as int, ChildNumber { n: a });
    let sb = spec_path_seq(p).update(d as int, ChildNumber { n: b });
    axiom_path_roundtrip((d + 1) as u8, sa);
    axiom_path_roundtrip((d + 1) as u8, sb);
    if spec_child_id(p, a) == spec_child_id(p, b) { assert(sa[d as int] == sb[d as int]); }
}

// L3: storage iterators, as a finite sequence
pub struct VIter<T> { pub items: Vec<T> }
impl<T> View for VIter<T> { type V = Seq<T>; open spec fn view(&self) -> Seq<T> { self.items@ } }

pub uninterp spec fn spec_mask_valid(mask: Option<&SecretKey>, w: WalletState) -> bool;

pub trait WalletBackend<'ck, C, K> where C: NodeClient + 'ck, K: Keychain + 'ck {
    spec fn state(&self) -> WalletState;
    // keychain present (wallet open) / the token unlocks it — see lmdb units (C14)

    fn keychain(&self, mask: Option<&SecretKey>) -> (r: Result<K, Error>)
        ensures
            r is Ok ==> self.state().has_keychain && self.state().valid_masks.contains(opt_key(mask)),
            (self.state().has_keychain && !self.state().valid_masks.contains(opt_key(mask))) ==> r == Err::<K, Error>(Error::InvalidKeychainMask),
            !self.state().has_keychain ==> r == Err::<K, Error>(Error::KeychainDoesntExist),
            r matches Err(e) ==> store_err(e);   // (LMDBBackend::keychain: keychain_errors_are_not_protocol_verdicts)

    fn calc_commit_for_cache(&mut self, keychain_mask: Option<&SecretKey>, amount: u64, id: &Identifier) -> (r: Result<Option<String>, Error>)
        ensures final(self).state() == old(self).state(),
            final(self).state().has_keychain == old(self).state().has_keychain,
            final(self).state().valid_masks == old(self).state().valid_masks;

    fn parent_key_id(&mut self) -> (r: Identifier)
        ensures final(self).state() == old(self).state(), r == old(self).state().parent,
            final(self).state().has_keychain == old(self).state().has_keychain,
            final(self).state().valid_masks == old(self).state().valid_masks;

    fn iter<'a>(&'a self) -> (r: VIter<OutputData>)
        ensures enumerates_outputs(r@, self.state().outputs), r@ == seq_of_outputs(self.state().outputs);

    fn get(&self, id: &Identifier, mmr_index: &Option<u64>) -> (r: Result<OutputData, Error>)
        ensures r matches Ok(o) ==> self.state().outputs.dom().contains((*id, *mmr_index)) && o == self.state().outputs[(*id, *mmr_index)];

    fn get_private_context(&mut self, keychain_mask: Option<&SecretKey>, slate_id: &[u8]) -> (r: Result<Context, Error>)
        ensures final(self).state() == old(self).state(),
            final(self).state().has_keychain == old(self).state().has_keychain,
            final(self).state().valid_masks == old(self).state().valid_masks,
            r matches Ok(c) ==> old(self).state().contexts.dom().contains(slate_id@) && c == old(self).state().contexts[slate_id@]
                && old(self).state().has_keychain && old(self).state().valid_masks.contains(opt_key(keychain_mask)),
            !old(self).state().contexts.dom().contains(slate_id@) ==> r is Err,
            // A-read: a stored context is returned when the keychain is open and the token unlocks it
            (old(self).state().contexts.dom().contains(slate_id@) && old(self).state().has_keychain && old(self).state().valid_masks.contains(opt_key(keychain_mask))) ==> r is Ok;

    fn tx_log_iter<'a>(&'a self) -> (r: VIter<TxLogEntry>)
        ensures enumerates_log(r@, self.state().tx_log), r@ == seq_of_log(self.state().tx_log);

    // the stored transaction file of a slate (LMDBBackend::get_stored_tx is itself a unit, lmdb_stored_tx): the file system is
    // outside WalletState; a successful read returns what the file named `uuid` holds (None: no such file)
    spec fn stored_file(&self, name: Seq<char>) -> Option<Transaction>;
    fn get_stored_tx(&self, uuid: &str) -> (r: Result<Option<Transaction>, Error>)
        ensures r matches Ok(v) ==> v == self.stored_file(uuid@);

    fn batch<'a>(&'a mut self, keychain_mask: Option<&SecretKey>) -> (r: Result<Box<dyn WalletOutputBatch<K> + 'a>, Error>)
        ensures
            r matches Ok(b) ==> old(self).state().has_keychain && old(self).state().valid_masks.contains(opt_key(keychain_mask))
                && b.base() == old(self).state() && b.view() == old(self).state() && b.result() == final(self).state(),
            r is Err ==> final(self).state() == old(self).state(),
            final(self).state().has_keychain == old(self).state().has_keychain,
            final(self).state().valid_masks == old(self).state().valid_masks,
            (!old(self).state().has_keychain || !old(self).state().valid_masks.contains(opt_key(keychain_mask))) ==> r is Err;

    // LMDBBackend::next_child is itself a unit (C15) verified against this clause
    fn next_child(&mut self, keychain_mask: Option<&SecretKey>) -> (r: Result<Identifier, Error>)
        ensures
            final(self).state().has_keychain == old(self).state().has_keychain,
            final(self).state().valid_masks == old(self).state().valid_masks,
            r matches Ok(id) ==> {
                let p = old(self).state().parent;
                let n = if old(self).state().child_idx.dom().contains(p) { old(self).state().child_idx[p] } else { 0u32 };
                &&& id == spec_child_id(p, n)
                &&& n < u32::MAX
                &&& final(self).state() == (WalletState { child_idx: old(self).state().child_idx.insert(p, (n + 1) as u32), ..old(self).state() })
            },
            r is Err ==> final(self).state() == old(self).state(),
            (!old(self).state().has_keychain || !old(self).state().valid_masks.contains(opt_key(keychain_mask))) ==> r is Err;

    fn last_confirmed_height(&mut self) -> (r: Result<u64, Error>)
        ensures final(self).state() == old(self).state(),
            final(self).state().has_keychain == old(self).state().has_keychain,
            final(self).state().valid_masks == old(self).state().valid_masks,
            r matches Ok(h) ==> h == spec_conf_height(old(self).state()),
            r matches Err(e) ==> store_err(e);

    fn store_tx(&self, uuid: &str, tx: &Transaction) -> (r: Result<(), Error>);

    // the stored next-child counter of an account (0 when none is stored)
    fn current_child_index(&mut self, parent_key_id: &Identifier) -> (r: Result<u32, Error>)
        ensures final(self).state() == old(self).state(),
            r matches Ok(n) ==> n == (if old(self).state().child_idx.dom().contains(*parent_key_id) { old(self).state().child_idx[*parent_key_id] } else { 0u32 });

    fn w2n_client(&mut self) -> (r: &mut C)
        ensures final(self).state() == old(self).state();

    fn get_acct_path(&self, label: String) -> (r: Result<Option<AcctPathMapping>, Error>)
        ensures r matches Ok(v) ==> v == (if self.state().accounts.dom().contains(label@) { Some(self.state().accounts[label@]) } else { None::<AcctPathMapping> }),
            r matches Err(e) ==> store_err(e);

    // every stored label -> path mapping, in storage order
    fn acct_path_iter<'a>(&'a self) -> (r: VIter<AcctPathMapping>)
        ensures forall|i: int| 0 <= i < r@.len() ==> self.state().accounts.dom().contains((#[trigger] r@[i]).label@) && self.state().accounts[r@[i].label@] == r@[i],
            forall|l: Seq<char>| #[trigger] self.state().accounts.dom().contains(l) ==> exists|i: int| 0 <= i < r@.len() && r@[i] == self.state().accounts[l],
            r@ == seq_of_accounts(self.state().accounts);

    // a write batch WITHOUT the keychain check (LMDBBackend::batch_no_mask: used where no key material is touched);
    // unlike batch(), it is handed out whatever the token
    fn batch_no_mask<'a>(&'a mut self) -> (r: Result<Box<dyn WalletOutputBatch<K> + 'a>, Error>)
        ensures
            r matches Ok(b) ==> b.base() == old(self).state() && b.view() == old(self).state() && b.result() == final(self).state(),
            r is Err ==> final(self).state() == old(self).state(),
            final(self).state().has_keychain == old(self).state().has_keychain,
            final(self).state().valid_masks == old(self).state().valid_masks;
}

pub open spec fn spec_conf_height(s: WalletState) -> u64 {
    if s.conf_height.dom().contains(s.parent) { s.conf_height[s.parent] } else { 0 }
}

pub trait WalletOutputBatch<K> where K: Keychain {
    spec fn base(&self) -> WalletState;    // committed state when the batch was opened
    spec fn view(&self) -> WalletState;    // what the batch's own reads see
    spec fn result(&self) -> WalletState;  // (prophecy) committed state once the batch is gone

    fn save(&mut self, out: OutputData) -> (r: Result<(), Error>)
        ensures final(self).base() == old(self).base(), final(self).result() == old(self).result(),
            r is Ok ==> final(self).view() == (WalletState { outputs: old(self).view().outputs.insert(out_key(out), out), ..old(self).view() }),
            // S1 (checked by the extractor): callers propagate the error, so the batch is dropped uncommitted
            r is Err ==> final(self).view() == old(self).view() && final(self).result() == final(self).base();

    fn get(&self, id: &Identifier, mmr_index: &Option<u64>) -> (r: Result<OutputData, Error>)
        ensures r matches Ok(o) ==> self.view().outputs.dom().contains((*id, *mmr_index)) && o == self.view().outputs[(*id, *mmr_index)],
            !self.view().outputs.dom().contains((*id, *mmr_index)) ==> r is Err,
            // A-read: reading a record that is present succeeds (read I/O errors are not modelled)
            self.view().outputs.dom().contains((*id, *mmr_index)) ==> r is Ok;

    fn iter(&self) -> (r: VIter<OutputData>)
        ensures enumerates_outputs(r@, self.view().outputs), r@ == seq_of_outputs(self.view().outputs);

    fn delete(&mut self, id: &Identifier, mmr_index: &Option<u64>) -> (r: Result<(), Error>)
        ensures final(self).base() == old(self).base(), final(self).result() == old(self).result(),
            r is Ok ==> final(self).view() == (WalletState { outputs: old(self).view().outputs.remove((*id, *mmr_index)), ..old(self).view() }),
            // S1 (checked by the extractor): callers propagate the error, so the batch is dropped uncommitted
            r is Err ==> final(self).view() == old(self).view() && final(self).result() == final(self).base();

    fn save_child_index(&mut self, parent_key_id: &Identifier, child_n: u32) -> (r: Result<(), Error>)
        ensures final(self).base() == old(self).base(), final(self).result() == old(self).result(),
            r is Ok ==> final(self).view() == (WalletState { child_idx: old(self).view().child_idx.insert(*parent_key_id, child_n), ..old(self).view() }),
            // S1 (checked by the extractor): callers propagate the error, so the batch is dropped uncommitted
            r is Err ==> final(self).view() == old(self).view() && final(self).result() == final(self).base();

    fn save_acct_path(&mut self, mapping: AcctPathMapping) -> (r: Result<(), Error>)
        ensures final(self).base() == old(self).base(), final(self).result() == old(self).result(),
            r is Ok ==> final(self).view() == (WalletState { accounts: old(self).view().accounts.insert(mapping.label@, mapping), ..old(self).view() }),
            r is Err ==> final(self).view() == old(self).view() && final(self).result() == final(self).base();

    fn save_last_confirmed_height(&mut self, parent_key_id: &Identifier, height: u64) -> (r: Result<(), Error>)
        ensures final(self).base() == old(self).base(), final(self).result() == old(self).result(),
            r is Ok ==> final(self).view() == (WalletState { conf_height: old(self).view().conf_height.insert(*parent_key_id, height), ..old(self).view() }),
            // S1 (checked by the extractor): callers propagate the error, so the batch is dropped uncommitted
            r is Err ==> final(self).view() == old(self).view() && final(self).result() == final(self).base();

    fn next_tx_log_id(&mut self, parent_key_id: &Identifier) -> (r: Result<u32, Error>)
        ensures final(self).base() == old(self).base(), final(self).result() == old(self).result(),
            r matches Ok(id) ==> {
                let n = if old(self).view().next_log.dom().contains(*parent_key_id) { old(self).view().next_log[*parent_key_id] } else { 0u32 };
                &&& id == n && n < u32::MAX
                &&& final(self).view() == (WalletState { next_log: old(self).view().next_log.insert(*parent_key_id, (n + 1) as u32), ..old(self).view() })
            },
            // S1 (checked by the extractor): callers propagate the error, so the batch is dropped uncommitted
            r is Err ==> final(self).view() == old(self).view() && final(self).result() == final(self).base();

    fn tx_log_iter(&self) -> (r: VIter<TxLogEntry>)
        ensures enumerates_log(r@, self.view().tx_log), r@ == seq_of_log(self.view().tx_log);

    fn save_tx_log_entry(&mut self, t: TxLogEntry, parent_id: &Identifier) -> (r: Result<(), Error>)
        ensures final(self).base() == old(self).base(), final(self).result() == old(self).result(),
            r is Ok ==> final(self).view() == (WalletState { tx_log: old(self).view().tx_log.insert((*parent_id, t.id), t), ..old(self).view() }),
            // S1 (checked by the extractor): callers propagate the error, so the batch is dropped uncommitted
            r is Err ==> final(self).view() == old(self).view() && final(self).result() == final(self).base();

    // LMDB: `out.lock(); self.save(out.clone())`
    fn lock_output(&mut self, out: &mut OutputData) -> (r: Result<(), Error>)
        ensures final(self).base() == old(self).base(), final(self).result() == old(self).result(),
            *final(out) == (OutputData { status: OutputStatus::Locked, ..*old(out) }),
            r is Ok ==> final(self).view() == (WalletState { outputs: old(self).view().outputs.insert(out_key(*final(out)), *final(out)), ..old(self).view() }),
            // S1 (checked by the extractor): callers propagate the error, so the batch is dropped uncommitted
            r is Err ==> final(self).view() == old(self).view() && final(self).result() == final(self).base();

    fn save_private_context(&mut self, slate_id: &[u8], ctx: &Context) -> (r: Result<(), Error>)
        ensures final(self).base() == old(self).base(), final(self).result() == old(self).result(),
            r is Ok ==> final(self).view() == (WalletState { contexts: old(self).view().contexts.insert(slate_id@, *ctx), ..old(self).view() }),
            // S1 (checked by the extractor): callers propagate the error, so the batch is dropped uncommitted
            r is Err ==> final(self).view() == old(self).view() && final(self).result() == final(self).base();

    fn delete_private_context(&mut self, slate_id: &[u8]) -> (r: Result<(), Error>)
        ensures final(self).base() == old(self).base(), final(self).result() == old(self).result(),
            r is Ok ==> final(self).view() == (WalletState { contexts: old(self).view().contexts.remove(slate_id@), ..old(self).view() }),
            // S1 (checked by the extractor): callers propagate the error, so the batch is dropped uncommitted
            r is Err ==> final(self).view() == old(self).view() && final(self).result() == final(self).base();

    // one LMDB write transaction: all of the batch's writes or none (A-lmdb-atomic)
    fn commit(&self) -> (r: Result<(), Error>)
        ensures r is Ok ==> self.result() == self.view(),
            r is Err ==> self.result() == self.base();
}

// S2 (inserted by the extractor only at `return` / desugared `?` exits that lie inside the lexical scope of a write
// batch and textually before its `commit()`): leaving the scope drops the batch uncommitted, LMDB aborts the
// transaction, so nothing of it is ever committed.
#[verifier::external_body]
pub proof fn vf_batch_abandoned<K: Keychain>(b: &dyn WalletOutputBatch<K>) ensures b.result() == b.base() { }
