// ===== prelude/addrcodec.rs — TRUSTED BASE for slatepack/address.rs (C08): bech32 / base32 / ed25519 key bytes as functions =====
// A-bech32: encode and decode are mutually inverse on what encode produces; the human-readable part is returned as written.
pub struct U5 { pub v: u8 }
pub struct Bech32Err { pub c: u8 }
pub uninterp spec fn spec_bech32_encode(hrp: Seq<char>, data: Seq<U5>) -> Seq<char>;
pub uninterp spec fn spec_bech32_decode(text: Seq<char>) -> Option<(Seq<char>, Seq<U5>)>;
#[verifier::external_body]
pub proof fn axiom_bech32_roundtrip(hrp: Seq<char>, data: Seq<U5>)
    ensures spec_bech32_decode(spec_bech32_encode(hrp, data)) == Some((hrp, data)) { }
pub uninterp spec fn spec_to_base32(b: Seq<u8>) -> Seq<U5>;
pub uninterp spec fn spec_from_base32(d: Seq<U5>) -> Option<Seq<u8>>;
#[verifier::external_body]
pub proof fn axiom_base32_roundtrip(b: Seq<u8>) ensures spec_from_base32(spec_to_base32(b)) == Some(b) { }
impl vstd::std_specs::convert::FromSpecImpl<Bech32Err> for Error { open spec fn obeys_from_spec() -> bool { false } uninterp spec fn from_spec(e: Bech32Err) -> Self; }
impl From<Bech32Err> for Error { #[verifier::external_body] fn from(e: Bech32Err) -> (r: Error) { unimplemented!() } }
pub struct Bech32Text { pub s: String }
impl Bech32Text { #[verifier::external_body] pub fn to_string(&self) -> (r: String) ensures r@ == self.s@ { unimplemented!() } }
pub mod bech32 {
    #[allow(unused_imports)] use super::*;
    #[verifier::external_body]
    pub fn decode(s: &str) -> (r: Result<(String, Vec<U5>), Bech32Err>)
        ensures r matches Ok((h, d)) ==> spec_bech32_decode(s@) == Some((h@, d@)), spec_bech32_decode(s@) is Some ==> r is Ok { unimplemented!() }
    #[verifier::external_body]
    pub fn encode(hrp: &String, data: Vec<U5>) -> (r: Result<Bech32Text, Bech32Err>)
        ensures r matches Ok(t) ==> t.s@ == spec_bech32_encode(hrp@, data@) { unimplemented!() }
}
// `Vec::<u8>::from_base32(&data)` / `bytes.to_base32()`
#[verifier::external_body]
pub fn vf_from_base32(d: &Vec<U5>) -> (r: Result<Vec<u8>, Bech32Err>)
    ensures r matches Ok(b) ==> spec_from_base32(d@) == Some(b@), spec_from_base32(d@) is Some ==> r is Ok { unimplemented!() }
#[verifier::external_body]
pub fn vf_to_base32(b: [u8; 32]) -> (r: Vec<U5>) ensures r@ == spec_to_base32(b@) { unimplemented!() }
// ed25519 public keys: a key is determined by its 32 bytes (A-key-bytes), from_bytes accepts exactly the bytes of keys
pub struct DalekKeyErr { pub c: u8 }
#[verifier::external_body]
pub proof fn axiom_dalek_bytes_injective(a: DalekPublicKey, b: DalekPublicKey)
    ensures spec_dalek_bytes(a) == spec_dalek_bytes(b) ==> a == b { }
#[verifier::external_body]
pub fn vf_dalek_from_bytes(b: &Vec<u8>) -> (r: Result<DalekPublicKey, DalekKeyErr>)
    ensures r matches Ok(k) ==> spec_dalek_bytes(k) == b@, (exists|k: DalekPublicKey| spec_dalek_bytes(k) == b@) ==> r is Ok { unimplemented!() }
pub use crate::DalekPublicKey as edDalekPublicKey;
// SlatepackAddress::new: the prefix of the local chain type ("grin" / "tgrin") — a global, any value here
pub uninterp spec fn spec_local_hrp() -> Seq<char>;
impl SlatepackAddress {
    #[verifier::external_body]
    pub fn new(pub_key: &DalekPublicKey) -> (r: SlatepackAddress) ensures r.pub_key == *pub_key, r.hrp@ == spec_local_hrp() { unimplemented!() }
}
