// ===== prelude/walletstate.rs — TRUSTED BASE for owner::update_wallet_state (C17): the steps it orchestrates =====
// The wallet is reached through Arc<Mutex<..>> here (sequential view, prelude/sync.rs): no state contract is possible;
// what IS checked is the condition under which the refresh asks for a cancellation (the stub's precondition).
pub trait WalletBackendScanState {
    fn init_status(&mut self) -> Result<WalletInitStatus, Error>;
    fn last_scanned_block(&mut self) -> Result<ScannedBlockInfo, Error>;
}
impl<'a, C: NodeClient + 'a, K: Keychain + 'a> WalletBackendScanState for Box<dyn WalletBackend<'a, C, K> + 'a> {
    #[verifier::external_body] fn init_status(&mut self) -> (r: Result<WalletInitStatus, Error>) { unimplemented!() }
    #[verifier::external_body] fn last_scanned_block(&mut self) -> (r: Result<ScannedBlockInfo, Error>) { unimplemented!() }
}
pub trait WalletBatchScanState {
    fn save_last_scanned_block(&mut self, block: ScannedBlockInfo) -> Result<(), Error>;
    fn save_init_status(&mut self, value: WalletInitStatus) -> Result<(), Error>;
}
impl<'a, K: Keychain + 'a> WalletBatchScanState for Box<dyn WalletOutputBatch<K> + 'a> {
    #[verifier::external_body] fn save_last_scanned_block(&mut self, block: ScannedBlockInfo) -> (r: Result<(), Error>) { unimplemented!() }
    #[verifier::external_body] fn save_init_status(&mut self, value: WalletInitStatus) -> (r: Result<(), Error>) { unimplemented!() }
}
// steps 1, 2 and 4 (refresh outputs from the node, confirm by kernel, scan): other units / not under contract
#[verifier::external_body]
pub fn update_outputs<'a, L, C, K>(wallet_inst: Arc<Mutex<Box<dyn WalletInst<'a, L, C, K>>>>, keychain_mask: Option<&SecretKey>, update_all: bool) -> (r: Result<bool, Error>)
    where L: WalletLCProvider<'a, C, K>, C: NodeClient + 'a, K: Keychain + 'a { unimplemented!() }
// may update the entries it is given (confirmation), never their id or ttl
#[verifier::external_body]
pub fn update_txs_via_kernel<'a, L, C, K>(wallet_inst: Arc<Mutex<Box<dyn WalletInst<'a, L, C, K>>>>, keychain_mask: Option<&SecretKey>, txs: &mut Vec<TxLogEntry>) -> (r: Result<bool, Error>)
    where L: WalletLCProvider<'a, C, K>, C: NodeClient + 'a, K: Keychain + 'a { unimplemented!() }
pub mod scan {
    #[allow(unused_imports)] use super::*;
    #[verifier::external_body]
    pub fn scan<'a, L, C, K>(wallet_inst: Arc<Mutex<Box<dyn WalletInst<'a, L, C, K>>>>, keychain_mask: Option<&SecretKey>, delete_unconfirmed: bool,
        start_height: u64, end_height: u64, status_send_channel: &Option<Sender<StatusMessage>>) -> (r: Result<ScannedBlockInfo, Error>)
        where L: WalletLCProvider<'a, C, K>, C: NodeClient + 'a, K: Keychain + 'a
        // (proved in unit scan_full: scan_reports_the_range_it_covered)
        ensures r matches Ok(i) ==> i.height == end_height
    { unimplemented!() }
}
// C17 "a refresh at such a height cancels the wallet's own still-unconfirmed transaction": tx::cancel_tx as called by the
// refresh. Its PRECONDITION is the release rule: the entry is addressed by its own log id (a slate id may match two
// entries of one account, e.g. a self-send, and cancel_tx refuses an ambiguous match), it carries a cutoff, and the chain
// tip has reached that cutoff.
pub open spec fn expiry_release_ok(tx_id: Option<u32>, tx_slate_id: Option<Uuid>, entry: TxLogEntry, tip_height: u64) -> bool {
    tx_id == Some(entry.id) && tx_slate_id is None && (entry.ttl_cutoff_height matches Some(e) && tip_height >= e)
}
#[verifier::external_body]
pub fn vf_cancel_expired<'a, T: ?Sized, C, K>(wallet: &mut T, keychain_mask: Option<&SecretKey>, parent_key_id: &Identifier, tx_id: Option<u32>, tx_slate_id: Option<Uuid>,
    Ghost(entry): Ghost<TxLogEntry>, Ghost(tip_height): Ghost<u64>) -> (r: Result<(), Error>)
    where T: WalletBackend<'a, C, K>, C: NodeClient + 'a, K: Keychain + 'a
    requires expiry_release_ok(tx_id, tx_slate_id, entry, tip_height)
{ unimplemented!() }
