// ===== prelude/gate.rs — TRUSTED BASE for the owner-listener gate (controller/src/controller.rs, C13) =====
// serde_json::Value, hyper request, the JSON-RPC dispatcher and the AES-GCM envelope types of api/src/types.rs are opaque;
// the facts the gate relies on are the named predicates below.
pub struct JsonValue { pub v: u64 }
impl Clone for JsonValue { #[verifier::external_body] fn clone(&self) -> (r: Self) ensures r == *self { unimplemented!() } }
pub mod serde_json { pub use crate::JsonValue as Value; }
pub struct Request<B> { pub b: B }
pub struct Body { pub b: u8 }
// request body parsed as JSON: any value (chosen by the client), or an error
pub uninterp spec fn spec_body(req: Request<Body>) -> JsonValue;
#[verifier::external_body]
pub fn parse_body(req: Request<Body>) -> (r: Result<JsonValue, Error>) ensures r matches Ok(v) ==> v == spec_body(req) { unimplemented!() }
// `val["method"].as_str()`: the text of a field of a JSON object (None: no such field, or not a string)
pub uninterp spec fn spec_json_str_field(v: JsonValue, field: Seq<char>) -> Option<Seq<char>>;
// the two method names the gate depends on (the one-line helpers is_init_secure_api / is_open_wallet are verified against these)
pub open spec fn spec_method_is_init(v: JsonValue) -> bool { spec_json_str_field(v, "method"@) == Some("init_secure_api"@) }
pub open spec fn spec_method_is_open_wallet(v: JsonValue) -> bool { spec_json_str_field(v, "method"@) == Some("open_wallet"@) }
// L27: `matches!(val[FIELD].as_str(), Some(LIT))` (Index on serde_json::Value and a string-literal pattern) as one call
#[verifier::external_body]
pub fn vf_json_str_field_is(val: &JsonValue, field: &str, lit: &str) -> (r: bool)
    ensures r == (spec_json_str_field(*val, field@) == Some(lit@)) { unimplemented!() }
// plain = the JSON obtained by opening the AES-256-GCM body of `envelope` under `key`
// (EncryptedRequest::decrypt = EncryptedBody::decrypt, verified in unit api_encrypted_body: Ok only if the AEAD opens)
pub uninterp spec fn spec_opens(key: SecretKey, envelope: JsonValue, plain: JsonValue) -> bool;
// sealed = the JSON envelope carrying `plain` encrypted under `key` (EncryptedResponse::from_json + as_json_value)
pub uninterp spec fn spec_seals(key: SecretKey, plain: JsonValue, sealed: JsonValue) -> bool;
// an EncryptionErrorResponse value (carries a code and a message only)
pub uninterp spec fn spec_is_error_value(v: JsonValue) -> bool;
pub uninterp spec fn spec_is_empty_batch(v: JsonValue) -> bool;
pub struct ApiError { pub c: u8 }
pub struct JsonError { pub c: u8 }
pub struct EncryptedRequest { pub id: JsonId, pub src: Ghost<JsonValue> }
// serde_json::from_value::<EncryptedRequest>(req.clone())
#[verifier::external_body]
pub fn vf_enc_request_from_value(req: JsonValue) -> (r: Result<EncryptedRequest, JsonError>)
    ensures r matches Ok(e) ==> e.src@ == req { unimplemented!() }
impl EncryptedRequest {
    #[verifier::external_body]
    pub fn decrypt(&self, dec_key: &SecretKey) -> (r: Result<JsonValue, ApiError>)
        ensures r matches Ok(v) ==> spec_opens(*dec_key, self.src@, v) { unimplemented!() }
}
pub struct EncryptedResponse { pub key: Ghost<SecretKey>, pub plain: Ghost<JsonValue> }
impl EncryptedResponse {
    #[verifier::external_body]
    pub fn from_json(id: &JsonId, json_in: &JsonValue, enc_key: &SecretKey) -> (r: Result<EncryptedResponse, ApiError>)
        ensures r matches Ok(e) ==> e.key@ == *enc_key && e.plain@ == *json_in { unimplemented!() }
    #[verifier::external_body]
    pub fn as_json_value(&self) -> (r: Result<JsonValue, ApiError>)
        ensures r matches Ok(v) ==> spec_seals(self.key@, self.plain@, v) { unimplemented!() }
}
pub struct EncryptionErrorResponse { pub e: u8 }
impl EncryptionErrorResponse {
    #[verifier::external_body]
    pub fn new(id: u64, code: i32, message: &str) -> (r: EncryptionErrorResponse) { unimplemented!() }
    #[verifier::external_body]
    pub fn as_json_value(&self) -> (r: JsonValue) ensures spec_is_error_value(r) { unimplemented!() }
}
// L1: `&format!(..)` passed as &str
#[verifier::external_body]
pub fn vf_format_str() -> (r: &'static str) { unimplemented!() }
// the shared session key / keychain mask cells: Arc<Mutex<Option<SecretKey>>>. Sequential view: during one call_api the
// session key cell is only written at the very end (update_owner_api_shared_key), so reads see one value.
pub type KeyCell = Arc<Mutex<Option<SecretKey>>>;
pub uninterp spec fn spec_cell(c: KeyCell) -> Option<SecretKey>;
#[verifier::external_body]
pub fn vf_cell_clone(c: &KeyCell) -> (r: KeyCell) ensures spec_cell(r) == spec_cell(*c) { unimplemented!() }
#[verifier::external_body]
pub fn vf_cell_lock(c: &KeyCell) -> (r: &Option<SecretKey>) ensures *r == spec_cell(*c) { unimplemented!() }
pub struct Owner<L, C, K> { pub shared_key: KeyCell, pub p: core::marker::PhantomData<(L, C, K)> }
pub enum MaybeReply { Reply(JsonValue), DontReply }
// <dyn OwnerRpc>::handle_request(&*api, val): the macro-generated JSON-RPC dispatcher — the ONLY way a request reaches a
// wallet method. C13: it may be entered only with the key-exchange call as received, or with the plaintext obtained by
// opening the received envelope under the current session key.
pub open spec fn gate_open(val: JsonValue, raw: JsonValue, key: Option<SecretKey>) -> bool {
    (val == raw && spec_method_is_init(raw)) || (key matches Some(k) && spec_opens(k, raw, val))
}
#[verifier::external_body]
pub fn vf_handle_request<L, C, K>(api: &Arc<Owner<L, C, K>>, val: JsonValue, Ghost(raw): Ghost<JsonValue>, Ghost(key): Ghost<Option<SecretKey>>) -> (r: MaybeReply)
    requires gate_open(val, raw, key)
{ unimplemented!() }
#[verifier::external_body]
pub fn vf_json_empty_array() -> (r: JsonValue) ensures spec_is_empty_batch(r) { unimplemented!() }
#[verifier::external_body]
pub fn vf_api_shared_key<L, C, K>(api: &Arc<Owner<L, C, K>>) -> (r: Option<SecretKey>) { unimplemented!() }
// `api.shared_key.clone()`: the Owner object's own key cell — not the listener's session-key cell
#[verifier::external_body]
pub fn vf_api_key_cell<L, C, K>(api: &Arc<Owner<L, C, K>>) -> (r: KeyCell) { unimplemented!() }

// the remaining one-line / formatting helpers of OwnerV3Helpers (string matching on JSON, error re-formatting, cell updates)
pub struct OwnerV3Helpers;
impl OwnerV3Helpers {
    #[verifier::external_body]
    pub fn check_error_response(val: &JsonValue) -> (r: (bool, JsonValue)) { unimplemented!() }
    #[verifier::external_body]
    pub fn update_mask(mask: KeyCell, val: &JsonValue) { unimplemented!() }
    #[verifier::external_body]
    pub fn update_owner_api_shared_key(key: KeyCell, val: &JsonValue, new_key: Option<SecretKey>) { unimplemented!() }
}
// the handler type call_api is an associated function of (its fields are not used by call_api)
pub struct OwnerAPIHandlerV3<L, C, K> { pub p: core::marker::PhantomData<(L, C, K)> }
