// ===== prelude/core_min.rs — TRUSTED BASE: lowering helpers only (for units outside libwallet's Error type) =====
#[verifier::external_body]
pub fn vf_format() -> (r: String) { unimplemented!() }
pub fn vf_assert(c: bool) requires c { }
#[verifier::external_body]
pub fn vf_unreachable<T>() -> (r: T) requires false { unimplemented!() }
#[verifier::external_body]
pub fn vf_str_to_string(s: &str) -> (r: String) ensures r@ == s@ { unimplemented!() }
pub struct SecretKey(pub [u8; 32]);
