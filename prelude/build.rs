// ===== prelude/build.rs — TRUSTED BASE: grin_core::libtx::build combinators, as opaque parts =====
pub mod build {
    pub use crate::Append;
    pub use crate::build_input as input;
    pub use crate::build_coinbase_input as coinbase_input;
    pub use crate::build_output as output;
    pub use crate::build_partial_transaction as partial_transaction;
}
pub struct Append<K, B> { pub k: core::marker::PhantomData<K>, pub b: core::marker::PhantomData<B>, pub tag: u8 }
pub enum PartSpec { Input { value: u64, key: Identifier }, CoinbaseInput { value: u64, key: Identifier }, Output { value: u64, key: Identifier } }
pub uninterp spec fn part_spec<K, B>(p: Append<K, B>) -> PartSpec;
pub open spec fn parts_spec<K, B>(s: Seq<Box<Append<K, B>>>) -> Seq<PartSpec> { s.map(|i: int, p: Box<Append<K, B>>| part_spec(*p)) }
#[verifier::external_body]
pub fn build_input<K, B>(value: u64, key_id: Identifier) -> (r: Box<Append<K, B>>)
    ensures part_spec(*r) == (PartSpec::Input { value, key: key_id }) { unimplemented!() }
#[verifier::external_body]
pub fn build_coinbase_input<K, B>(value: u64, key_id: Identifier) -> (r: Box<Append<K, B>>)
    ensures part_spec(*r) == (PartSpec::CoinbaseInput { value, key: key_id }) { unimplemented!() }
#[verifier::external_body]
pub fn build_output<K, B>(value: u64, key_id: Identifier) -> (r: Box<Append<K, B>>)
    ensures part_spec(*r) == (PartSpec::Output { value, key: key_id }) { unimplemented!() }

// the inputs/outputs a transaction body was built from (grin_core::libtx::build), abstractly
pub uninterp spec fn body_parts(b: u64) -> Seq<PartSpec>;
pub open spec fn tx_parts(t: Transaction) -> Seq<PartSpec> { body_parts(t.body.t) }

// build::partial_transaction: adds exactly the given parts to the transaction, keeps its kernels (A-build)
#[verifier::external_body]
pub fn build_partial_transaction<K, B>(tx: Transaction, elems: &Vec<Box<Append<K, B>>>, keychain: &K, builder: &B) -> (r: Result<(Transaction, BlindingFactor), libtx::Error>)
    ensures r matches Ok((t, b)) ==> tx_parts(t) == tx_parts(tx) + parts_spec(elems@) && tx_kernels(t) == tx_kernels(tx)
        && tx_num_inputs(t) + tx_num_outputs(t) == tx_num_inputs(tx) + tx_num_outputs(tx) + elems@.len()
        && tx_num_inputs(t) >= tx_num_inputs(tx) && tx_num_outputs(t) >= tx_num_outputs(tx) && t.offset == tx.offset
{ unimplemented!() }
