// ===== prelude/core.rs — TRUSTED BASE (hand-written; every item is an assumption) =====
// Stub types for external crates, lowering helpers (L1, L9), std specs.

pub struct LibtxError { pub code: u8 }
pub struct KeychainError { pub code: u8 }
pub struct TransactionError { pub code: u8 }
pub struct SecpError { pub code: u8 }
pub struct CommittedError { pub code: u8 }
#[derive(PartialEq, Eq, Structural)]
pub enum SerError { IOErr, UnexpectedData, CorruptedData, CountError, TooLargeReadErr, HexError, SortError, DuplicateError, InvalidBlockVersion, UnsupportedProtocolVersion, TooLargeWriteErr }
pub mod libtx { pub use crate::LibtxError as Error; }
pub mod grin_keychain { pub use crate::KeychainError as Error; }
pub mod transaction { pub use crate::TransactionError as Error; }
pub mod secp { pub use crate::SecpError as Error; }
pub mod committed { pub use crate::CommittedError as Error; }
pub mod grin_core { pub mod ser { pub use crate::SerError as Error; } }

// L1: format!(..) — an unconstrained String (arguments are side-effect-free reads; listed in evidence)
#[verifier::external_body]
pub fn vf_format() -> (r: String) { unimplemented!() }

// L9: assert!/assert_eq!/unreachable!/panic! are panics, hence proof obligations
pub fn vf_assert(c: bool) requires c { }
#[verifier::external_body]
pub fn vf_unreachable<T>() -> (r: T) requires false { unimplemented!() }

// std: From<&str> for String / Into

// std: <[T]>::contains
pub assume_specification<T: PartialEq> [ <[T]>::contains ] (s: &[T], x: &T) -> (r: bool)
    ensures r == s@.contains(*x);

// ---- grin_keychain::Identifier (17 bytes: depth + 4×u32). Opaque value with structural equality.
#[derive(PartialEq, Eq, Structural)]
pub struct Identifier { pub hi: u128, pub lo: u8 }
impl Clone for Identifier {
    #[verifier::external_body]
    fn clone(&self) -> (r: Self) ensures r == *self { unimplemented!() }
}
