// ===== prelude/addrstub.rs — contract stub of libwallet::address::address_from_derivation_path =====
// (the function itself is verified in unit address_derivation against spec_addr_id; callers only need that the key is a
// function of account path and index)
pub uninterp spec fn spec_addr_key(parent: Identifier, index: u32) -> SecretKey;
pub mod address {
    pub use crate::address_from_derivation_path;
}
#[verifier::external_body]
pub fn address_from_derivation_path<K: Keychain>(keychain: &K, parent_key_id: &Identifier, index: u32) -> (r: Result<SecretKey, Error>)
    ensures r matches Ok(k) ==> k == spec_addr_key(*parent_key_id, index) { unimplemented!() }
