// ===== prelude/crypto.rs — TRUSTED BASE: cryptography behind uninterpreted functions/predicates =====
// Nothing is assumed about these beyond functionality (same inputs ⇒ same outputs) and what each
// `ensures` states. "A-crypto": the named primitive meets its name.
pub uninterp spec fn spec_pubkey(sk: SecretKey) -> PublicKey;            // sk·G
pub uninterp spec fn spec_pubkey_sum(keys: Seq<PublicKey>) -> PublicKey; // Σ points
pub uninterp spec fn spec_commit_of_pubkey(pk: PublicKey) -> Commitment;
pub uninterp spec fn part_sig_ok(sig: Signature, nonce_sum: PublicKey, pubkey: PublicKey, blind_sum: PublicKey, msg: SecpMessage) -> bool;
pub uninterp spec fn completed_sig_ok(sig: Signature, pubkey: PublicKey, msg: SecpMessage) -> bool;
pub uninterp spec fn spec_partial_sig(sec_key: SecretKey, sec_nonce: SecretKey, nonce_sum: PublicKey, blind_sum: PublicKey, msg: SecpMessage) -> Signature;
pub uninterp spec fn spec_add_sigs(sigs: Seq<Signature>, nonce_sum: PublicKey) -> Signature;
pub uninterp spec fn ed25519_ok(pk: DalekPublicKey, msg: Seq<u8>, sig: DalekSignature) -> bool;
pub uninterp spec fn spec_ed_sign(sk: SecretKey, msg: Seq<u8>) -> DalekSignature;

impl PublicKey {
    #[verifier::external_body]
    pub fn from_secret_key(secp: &Secp256k1, sk: &SecretKey) -> (r: Result<PublicKey, secp::Error>)
        ensures r matches Ok(p) ==> p == spec_pubkey(*sk) { unimplemented!() }
}
impl Commitment {
    #[verifier::external_body]
    pub fn from_pubkey(secp: &Secp256k1, pk: &PublicKey) -> (r: Result<Commitment, secp::Error>)
        ensures r matches Ok(c) ==> c == spec_commit_of_pubkey(*pk) { unimplemented!() }
}
impl DalekPublicKey {
    // ed25519_dalek::PublicKey::verify
    #[verifier::external_body]
    pub fn verify(&self, msg: &Vec<u8>, sig: &DalekSignature) -> (r: Result<(), Ed25519Error>)
        ensures (r is Ok) == ed25519_ok(*self, msg@, *sig) { unimplemented!() }
}
// payment proof message: amount (8 bytes BE) ++ kernel excess (33) ++ sender address (32)
pub open spec fn spec_proof_msg(amount: u64, excess: Commitment, sender: DalekPublicKey) -> Seq<u8> {
    spec_be64(amount) + excess.0@ + spec_dalek_bytes(sender)
}

// ---- grin_core transaction objects used by Slate signing/finalization (opaque, functional)
pub struct TxKernelFull { pub features: KernelFeatures, pub excess: Commitment, pub excess_sig: Signature }
impl Clone for TxKernelFull { #[verifier::external_body] fn clone(&self) -> (r: Self) ensures r == *self { unimplemented!() } }
impl Copy for TxKernelFull {}
pub enum KernelFeatures {
    Plain { fee: FeeFields },
    Coinbase,
    HeightLocked { fee: FeeFields, lock_height: u64 },
    NoRecentDuplicate { fee: FeeFields, relative_height: NRDRelativeHeight },
}
impl Clone for KernelFeatures { #[verifier::external_body] fn clone(&self) -> (r: Self) ensures r == *self { unimplemented!() } }
impl Copy for KernelFeatures {}
pub struct NRDRelativeHeight { pub h: u16 }
impl Clone for NRDRelativeHeight { #[verifier::external_body] fn clone(&self) -> (r: Self) ensures r == *self { unimplemented!() } }
impl Copy for NRDRelativeHeight {}
impl NRDRelativeHeight {
    #[verifier::external_body]
    pub fn new(height: u64) -> (r: Result<NRDRelativeHeight, transaction::Error>)
        ensures r matches Ok(v) ==> v == spec_nrd(height), (r is Ok) == spec_nrd_valid(height) { unimplemented!() }
}
pub uninterp spec fn spec_nrd(height: u64) -> NRDRelativeHeight;
pub uninterp spec fn spec_nrd_valid(height: u64) -> bool;   // 1 ..= one week of blocks
pub enum Weighting { AsTransaction, AsLimitedTransaction(u64), AsBlock, NoLimit }
// ghost views of a transaction: its kernels and the numbers of inputs / outputs, its total fee
// (the views below depend on the transaction body only, not on the kernel offset)
pub uninterp spec fn body_kernels(b: u64) -> Seq<TxKernelFull>;
pub open spec fn tx_kernels(t: Transaction) -> Seq<TxKernelFull> { body_kernels(t.body.t) }
pub uninterp spec fn body_num_inputs(b: u64) -> nat;
pub open spec fn tx_num_inputs(t: Transaction) -> nat { body_num_inputs(t.body.t) }
pub uninterp spec fn body_num_outputs(b: u64) -> nat;
pub open spec fn tx_num_outputs(t: Transaction) -> nat { body_num_outputs(t.body.t) }
pub uninterp spec fn body_fee_total(b: u64) -> u64;
pub open spec fn tx_fee_total(t: Transaction) -> u64 { body_fee_total(t.body.t) }
pub uninterp spec fn kernel_verifies(k: TxKernelFull) -> bool;         // kernel signature valid for its excess and message
// Transaction::validate(weighting): consensus validity under the given weight ceiling; a transaction to be relayed must be
// valid AsTransaction (block weight minus the room of the coinbase)
pub uninterp spec fn tx_valid_w(t: Transaction, w: Weighting) -> bool;
pub open spec fn tx_valid(t: Transaction) -> bool { tx_valid_w(t, Weighting::AsTransaction) }
pub uninterp spec fn spec_kernels_fee(k: Seq<TxKernelFull>) -> u64;
pub uninterp spec fn spec_replace_kernel(t: Transaction, k: TxKernelFull) -> Transaction;
#[verifier::external_body]
pub proof fn axiom_replace_kernel(t: Transaction, k: TxKernelFull)
    ensures tx_kernels(spec_replace_kernel(t, k)) == seq![k],
        tx_num_inputs(spec_replace_kernel(t, k)) == tx_num_inputs(t), tx_num_outputs(spec_replace_kernel(t, k)) == tx_num_outputs(t),
        tx_parts(spec_replace_kernel(t, k)) == tx_parts(t)
{ }
impl Clone for Transaction { #[verifier::external_body] fn clone(&self) -> (r: Self) ensures r == *self { unimplemented!() } }
impl Transaction {
    #[verifier::external_body]
    pub fn kernels(&self) -> (r: &[TxKernelFull]) ensures r@ == tx_kernels(*self) { unimplemented!() }
    #[verifier::external_body]
    pub fn inputs(&self) -> (r: Inputs) ensures r.spec_len() == tx_num_inputs(*self), inputs_view(r) == body_inputs(self.body) { unimplemented!() }
    #[verifier::external_body]
    pub fn outputs(&self) -> (r: &[Output]) ensures r@.len() == tx_num_outputs(*self), r@ == body_outputs(self.body) { unimplemented!() }
    #[verifier::external_body]
    pub fn fee(&self) -> (r: u64) ensures r == tx_fee_total(*self) { unimplemented!() }
    // FeeFields::new(fee_shift, fee): Err when the total fee is zero or does not fit 40 bits
    #[verifier::external_body]
    pub fn aggregate_fee_fields(&self) -> (r: Result<FeeFields, transaction::Error>)
        ensures (r is Ok) == (0 < tx_fee_total(*self) < 0x100_0000_0000)
    { unimplemented!() }
    #[verifier::external_body]
    pub fn replace_kernel(self, k: TxKernelFull) -> (r: Transaction)
        ensures r == spec_replace_kernel(self, k), tx_kernels(r) == seq![k], tx_num_inputs(r) == tx_num_inputs(self),
            tx_num_outputs(r) == tx_num_outputs(self), tx_parts(r) == tx_parts(self), tx_fee_total(r) == spec_kernels_fee(seq![k]), r.offset == self.offset
    { unimplemented!() }
    // Transaction::empty(): no kernels, no outputs, (legacy) commit-only empty inputs
    #[verifier::external_body]
    pub fn empty() -> (r: Transaction)
        ensures tx_kernels(r) == Seq::<TxKernelFull>::empty(), body_outputs(r.body) == Seq::<Output>::empty(), body_inputs(r.body) is None,
            tx_num_inputs(r) == 0, tx_num_outputs(r) == 0, tx_parts(r) == Seq::<PartSpec>::empty()
    { unimplemented!() }
    #[verifier::external_body]
    pub fn with_kernel(self, k: TxKernelFull) -> (r: Transaction)
        ensures tx_kernels(r) == tx_kernels(self).push(k), body_inputs(r.body) == body_inputs(self.body), body_outputs(r.body) == body_outputs(self.body), r.offset == self.offset, tx_parts(r) == tx_parts(self)
    { unimplemented!() }
    #[verifier::external_body]
    pub fn validate(&self, w: Weighting) -> (r: Result<(), transaction::Error>) ensures (r is Ok) == tx_valid_w(*self, w) { unimplemented!() }
}
// inputs / outputs of a transaction body (grin_core::core::transaction): `Inputs` is either the current
// features-and-commit list or the legacy commit-only list
pub struct Input { pub features: OutputFeatures, pub commit: Commitment }
impl Clone for Input { #[verifier::external_body] fn clone(&self) -> (r: Self) ensures r == *self { unimplemented!() } }
impl Copy for Input {}
impl Input { pub fn commitment(&self) -> (r: Commitment) ensures r == self.commit { self.commit } }
pub struct CommitWrapper { pub commit: Commitment }
impl Clone for Output { #[verifier::external_body] fn clone(&self) -> (r: Self) ensures r == *self { unimplemented!() } }
impl Copy for Output {}
impl Output {
    pub fn new(features: OutputFeatures, commit: Commitment, prf: RangeProof) -> (r: Output) ensures r == (Output { features, commit, prf }) { Output { features, commit, prf } }
    pub fn features(&self) -> (r: OutputFeatures) ensures r == self.features { self.features }
    pub fn commitment(&self) -> (r: Commitment) ensures r == self.commit { self.commit }
    pub fn proof(&self) -> (r: RangeProof) ensures r == self.prf { self.prf }
}
pub enum Inputs { CommitOnly(Vec<CommitWrapper>), FeaturesAndCommit(Vec<Input>) }
// None: commit-only
pub open spec fn inputs_view(i: Inputs) -> Option<Seq<Input>> { match i { Inputs::FeaturesAndCommit(v) => Some(v@), Inputs::CommitOnly(_) => None } }
impl Inputs {
    pub open spec fn spec_len(&self) -> nat { match self { Inputs::FeaturesAndCommit(v) => v@.len(), Inputs::CommitOnly(v) => v@.len() } }
    pub fn len(&self) -> (r: usize) ensures r == self.spec_len() { match self { Inputs::FeaturesAndCommit(v) => v.len(), Inputs::CommitOnly(v) => v.len() } }
}
pub uninterp spec fn body_inputs(b: TransactionBody) -> Option<Seq<Input>>;
pub uninterp spec fn body_outputs(b: TransactionBody) -> Seq<Output>;
pub uninterp spec fn spec_inputs_from(s: Seq<Input>) -> Inputs;
#[verifier::external_body]
pub proof fn axiom_inputs_from(s: Seq<Input>) ensures inputs_view(spec_inputs_from(s)) == Some(s) { }
impl vstd::std_specs::convert::FromSpecImpl<&[Input]> for Inputs {
    open spec fn obeys_from_spec() -> bool { true }
    open spec fn from_spec(v: &[Input]) -> Self { spec_inputs_from(v@) }
}
impl From<&[Input]> for Inputs {
    #[verifier::external_body]
    fn from(v: &[Input]) -> (r: Inputs) ensures r == spec_inputs_from(v@) { unimplemented!() }
}
impl TransactionBody {
    // replace_inputs / replace_outputs change only the named list
    #[verifier::external_body]
    pub fn replace_inputs(self, inputs: Inputs) -> (r: TransactionBody)
        ensures body_inputs(r) == inputs_view(inputs), body_outputs(r) == body_outputs(self), body_kernels(r.t) == body_kernels(self.t),
            body_num_inputs(r.t) == inputs.spec_len(), body_num_outputs(r.t) == body_num_outputs(self.t),
            // replacing no inputs by no inputs leaves what the body was built from
            (inputs.spec_len() == 0 && body_num_inputs(self.t) == 0) ==> body_parts(r.t) == body_parts(self.t) { unimplemented!() }
    #[verifier::external_body]
    pub fn replace_outputs(self, outputs: &[Output]) -> (r: TransactionBody)
        ensures body_outputs(r) == outputs@, body_inputs(r) == body_inputs(self), body_kernels(r.t) == body_kernels(self.t),
            body_num_outputs(r.t) == outputs@.len(), body_num_inputs(r.t) == body_num_inputs(self.t) { unimplemented!() }
}
impl TxKernelFull {
    #[verifier::external_body]
    pub fn verify(&self) -> (r: Result<(), transaction::Error>) ensures (r is Ok) == kernel_verifies(*self) { unimplemented!() }
    #[verifier::external_body]
    pub fn with_features(f: KernelFeatures) -> (r: TxKernelFull) ensures r.features == f { unimplemented!() }
}

// ---- aggsig (grin_core::libtx::aggsig) and key combination
impl PublicKey {
    #[verifier::external_body]
    pub fn from_combination(secp: &Secp256k1, keys: Vec<&PublicKey>) -> (r: Result<PublicKey, secp::Error>)
        ensures r matches Ok(k) ==> k == spec_pubkey_sum(keys@.map(|i: int, p: &PublicKey| *p)) { unimplemented!() }
}
// (slate.rs calls these as `aggsig::f`; the sidecar drops the module prefix, rule M1)
#[verifier::external_body]
pub fn verify_partial_sig(secp: &Secp256k1, sig: &Signature, pub_nonce_sum: &PublicKey, pubkey: &PublicKey, pubkey_sum: Option<&PublicKey>, msg: &SecpMessage) -> (r: Result<(), libtx::Error>)
    ensures (r is Ok) == (pubkey_sum matches Some(bs) && part_sig_ok(*sig, *pub_nonce_sum, *pubkey, *bs, *msg)) { unimplemented!() }
#[verifier::external_body]
pub fn calculate_partial_sig(secp: &Secp256k1, sec_key: &SecretKey, sec_nonce: &SecretKey, nonce_sum: &PublicKey, pubkey_sum: Option<&PublicKey>, msg: &SecpMessage) -> (r: Result<Signature, libtx::Error>)
    ensures r matches Ok(s) ==> (pubkey_sum matches Some(bs) && s == spec_partial_sig(*sec_key, *sec_nonce, *nonce_sum, *bs, *msg)) { unimplemented!() }
#[verifier::external_body]
pub fn add_signatures(secp: &Secp256k1, part_sigs: Vec<&Signature>, nonce_sum: &PublicKey) -> (r: Result<Signature, libtx::Error>)
    ensures r matches Ok(s) ==> s == spec_add_sigs(part_sigs@.map(|i: int, p: &Signature| *p), *nonce_sum) { unimplemented!() }
#[verifier::external_body]
pub fn verify_completed_sig(secp: &Secp256k1, sig: &Signature, pubkey: &PublicKey, pubkey_sum: Option<&PublicKey>, msg: &SecpMessage) -> (r: Result<(), libtx::Error>)
    ensures (r is Ok) == completed_sig_ok(*sig, *pubkey, *msg) { unimplemented!() }
pub uninterp spec fn spec_kernel_msg(f: KernelFeatures) -> SecpMessage;
impl KernelFeatures {
    #[verifier::external_body]
    pub fn kernel_sig_msg(&self) -> (r: Result<SecpMessage, transaction::Error>) ensures r matches Ok(m) ==> m == spec_kernel_msg(*self) { unimplemented!() }
}

// placeholders used when a slate's excess / signature cannot be computed yet
pub uninterp spec fn spec_sig_from_raw(b: Seq<u8>) -> Signature;
impl Signature {
    // secp256k1zkp Signature::from_raw_data(&[u8; 64]): copies the bytes, always Ok
    #[verifier::external_body]
    pub fn from_raw_data(d: &[u8; 64]) -> (r: Result<Signature, secp::Error>) ensures r matches Ok(s) && s == spec_sig_from_raw(d@) { unimplemented!() }
}
