// ===== prelude/crypto.rs — TRUSTED BASE: cryptography behind uninterpreted functions/predicates =====
// Nothing is assumed about these beyond functionality (same inputs ⇒ same outputs) and what each
// `ensures` states. "A-crypto": the named primitive meets its name.
pub uninterp spec fn spec_pubkey(sk: SecretKey) -> PublicKey;            // sk·G
pub uninterp spec fn spec_pubkey_sum(keys: Seq<PublicKey>) -> PublicKey; // Σ points
pub uninterp spec fn spec_commit_of_pubkey(pk: PublicKey) -> Commitment;
pub uninterp spec fn part_sig_ok(sig: Signature, nonce_sum: PublicKey, pubkey: PublicKey, blind_sum: PublicKey, msg: SecpMessage) -> bool;
pub uninterp spec fn completed_sig_ok(sig: Signature, pubkey: PublicKey, msg: SecpMessage) -> bool;
pub uninterp spec fn spec_partial_sig(sec_key: SecretKey, sec_nonce: SecretKey, nonce_sum: PublicKey, blind_sum: PublicKey, msg: SecpMessage) -> Signature;
pub uninterp spec fn spec_add_sigs(sigs: Seq<Signature>, nonce_sum: PublicKey) -> Signature;
pub uninterp spec fn ed25519_ok(pk: DalekPublicKey, msg: Seq<u8>, sig: DalekSignature) -> bool;
pub uninterp spec fn spec_ed_sign(sk: SecretKey, msg: Seq<u8>) -> DalekSignature;

impl PublicKey {
    #[verifier::external_body]
    pub fn from_secret_key(secp: &Secp256k1, sk: &SecretKey) -> (r: Result<PublicKey, secp::Error>)
        ensures r matches Ok(p) ==> p == spec_pubkey(*sk) { unimplemented!() }
}
impl Commitment {
    #[verifier::external_body]
    pub fn from_pubkey(secp: &Secp256k1, pk: &PublicKey) -> (r: Result<Commitment, secp::Error>)
        ensures r matches Ok(c) ==> c == spec_commit_of_pubkey(*pk) { unimplemented!() }
}
impl DalekPublicKey {
    // ed25519_dalek::PublicKey::verify
    #[verifier::external_body]
    pub fn verify(&self, msg: &Vec<u8>, sig: &DalekSignature) -> (r: Result<(), Ed25519Error>)
        ensures (r is Ok) == ed25519_ok(*self, msg@, *sig) { unimplemented!() }
    #[verifier::external_body]
    pub fn to_bytes(&self) -> (r: [u8; 32]) ensures r@ == spec_dalek_bytes(*self) { unimplemented!() }
}
pub uninterp spec fn spec_dalek_bytes(pk: DalekPublicKey) -> Seq<u8>;
// payment proof message: amount (8 bytes BE) ++ kernel excess (33) ++ sender address (32)
pub open spec fn spec_proof_msg(amount: u64, excess: Commitment, sender: DalekPublicKey) -> Seq<u8> {
    spec_be64(amount) + excess.0@ + spec_dalek_bytes(sender)
}
