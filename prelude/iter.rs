// ===== prelude/iter.rs — TRUSTED BASE: L3/L4 iterator and sorting idioms of std, as contracts =====
// VIter<T> (declared in store.rs) is a finite sequence; these are the std adapter semantics.
impl<T> VIter<T> {
    // Iterator::filter (+ later collect): keeps, in order, exactly the elements on which the closure returns true
    #[verifier::external_body]
    pub fn filter<F: Fn(&T) -> bool>(self, f: F) -> (r: VIter<T>)
        requires forall|x: T| #[trigger] f.requires((&x,)),
        // stated for every predicate p that determines the closure's result (whenever the closure returns b on x,
        // b == p(x)); `f.ensures` only gives this direction, and it avoids lambda extensionality
        ensures forall|p: spec_fn(T) -> bool| (forall|x: T, b: bool| #[trigger] f.ensures((&x,), b) ==> b == p(x)) ==> r@ == #[trigger] self@.filter(p),
            // (also usable when the closure is not fully specified) nothing is invented, and only accepted elements are kept
            forall|i: int| 0 <= i < r@.len() ==> self@.contains(#[trigger] r@[i]) && f.ensures((&r@[i],), true),
            // ... and the kept elements are a subsequence: positions strictly increase
            is_subsequence(r@, self@),
    { unimplemented!() }
    #[verifier::external_body]
    pub fn collect(self) -> (r: Vec<T>) ensures r@ == self@, r@.len() <= usize::MAX / 2 { unimplemented!() }   // (A-alloc)
    // Iterator::find: first element satisfying the closure
    #[verifier::external_body]
    pub fn find<F: Fn(&T) -> bool>(self, f: F) -> (r: Option<T>)
        requires forall|x: T| #[trigger] f.requires((&x,)),
        ensures
            r matches Some(v) ==> exists|i: int| 0 <= i < self@.len() && self@[i] == v && f.ensures((&v,), true)
                && forall|j: int| 0 <= j < i ==> f.ensures((&#[trigger] self@[j],), false),
            r is None ==> forall|j: int| 0 <= j < self@.len() ==> f.ensures((&#[trigger] self@[j],), false),
    { unimplemented!() }
}
pub open spec fn is_subsequence<T>(r: Seq<T>, s: Seq<T>) -> bool {
    exists|idx: Seq<int>| idx.len() == r.len() && (forall|i: int| 0 <= i < r.len() ==> 0 <= #[trigger] idx[i] < s.len() && r[i] == s[idx[i]])
        && (forall|i: int, j: int| 0 <= i < j < r.len() ==> #[trigger] idx[i] < #[trigger] idx[j])
}
// a closure whose contract is `ensures r == e(x)` is a function: used to turn f.ensures into a predicate
pub open spec fn closure_is_pred<T, F: Fn(&T) -> bool>(f: F, p: spec_fn(T) -> bool) -> bool {
    forall|x: T, r: bool| #[trigger] f.ensures((&x,), r) <==> r == p(x)
}

// L4: sort keys — a total preorder given by an integer rank (u32/u64 value, timestamps, BigInt value)
pub trait KeyRank { spec fn rank(&self) -> int; }
impl KeyRank for u32 { open spec fn rank(&self) -> int { *self as int } }
impl KeyRank for u64 { open spec fn rank(&self) -> int { *self as int } }
impl KeyRank for usize { open spec fn rank(&self) -> int { *self as int } }

pub open spec fn sorted_by_rank<T>(s: Seq<T>, k: spec_fn(T) -> int) -> bool {
    forall|i: int, j: int| 0 <= i <= j < s.len() ==> k(s[i]) <= k(s[j])
}
// the stable sort of s by key k (slice::sort_by_key is a stable merge sort)
pub uninterp spec fn stable_sort<T>(s: Seq<T>, k: spec_fn(T) -> int) -> Seq<T>;
#[verifier::external_body]
pub proof fn axiom_stable_sort<T>(s: Seq<T>, k: spec_fn(T) -> int)
    ensures
        stable_sort(s, k).to_multiset() == s.to_multiset(),
        stable_sort(s, k).len() == s.len(),
        sorted_by_rank(stable_sort(s, k), k),
{ }
// a permutation keeps pairwise different elements pairwise different
#[verifier::external_body]
pub proof fn axiom_stable_sort_no_duplicates<T>(s: Seq<T>, k: spec_fn(T) -> int)
    requires s.no_duplicates() ensures stable_sort(s, k).no_duplicates() { }
#[verifier::external_body]
pub fn vf_sort_by_key<T, K: KeyRank, F: Fn(&T) -> K>(v: &mut Vec<T>, f: F)
    requires forall|x: T| #[trigger] f.requires((&x,)),
    ensures forall|k: spec_fn(T) -> int| (forall|x: T, r: K| #[trigger] f.ensures((&x,), r) ==> r.rank() == k(x))
                ==> final(v)@ == stable_sort(old(v)@, k),
{ unimplemented!() }
// Vec::reverse
#[verifier::external_body]
pub fn vf_reverse<T>(v: &mut Vec<T>) ensures final(v)@ == old(v)@.reverse() { unimplemented!() }
// v.into_iter().take(n).collect()
#[verifier::external_body]
pub fn vf_take<T>(v: Vec<T>, n: usize) -> (r: Vec<T>)
    ensures r@ == v@.take(if n as int <= v@.len() { n as int } else { v@.len() as int })
{ unimplemented!() }
// slice::windows(n): panics for n == 0; otherwise the len-n+1 contiguous windows in order
#[verifier::external_body]
pub fn vf_windows<T>(v: &Vec<T>, n: usize) -> (r: Vec<&[T]>)
    requires n > 0
    ensures r@.len() == (if v@.len() >= n { v@.len() - n + 1 } else { 0 }),
        forall|i: int| 0 <= i < r@.len() ==> (#[trigger] r@[i])@ == v@.subrange(i, i + n as int)
{ unimplemented!() }
#[verifier::external_body]
pub fn vf_slice_to_vec<T>(s: &[T]) -> (r: Vec<T>) ensures r@ == s@ { unimplemented!() }
// `v.iter().take(n).cloned().collect()`
#[verifier::external_body]
pub fn vf_take_cloned<T>(v: &Vec<T>, n: usize) -> (r: Vec<T>)
    ensures r@ == v@.take(if n as int <= v@.len() { n as int } else { v@.len() as int })
{ unimplemented!() }
// Vec::into_iter() as the start of an adapter chain
#[verifier::external_body]
pub fn vf_into_viter<T>(v: Vec<T>) -> (r: VIter<T>) ensures r@ == v@ { unimplemented!() }
// `v.into_iter().map(f).collect()`: f is applied to every element in order (so its precondition must hold for each)
#[verifier::external_body]
pub fn vf_map_into<T, U, F: Fn(T) -> U>(v: Vec<T>, f: F) -> (r: Vec<U>)
    requires forall|i: int| 0 <= i < v@.len() ==> f.requires((#[trigger] v@[i],))
    ensures r@.len() == v@.len(), forall|i: int| 0 <= i < v@.len() ==> f.ensures((v@[i],), #[trigger] r@[i])
{ unimplemented!() }
// `v.iter().filter(f).collect::<Vec<&T>>()`: references to, in order, the elements accepted by the closure
#[verifier::external_body]
pub fn vf_filter_refs<'a, T, F: Fn(&&'a T) -> bool>(v: &'a Vec<T>, f: F) -> (r: Vec<&'a T>)
    requires forall|x: &'a T| #[trigger] f.requires((&x,))
    ensures forall|i: int| 0 <= i < r@.len() ==> v@.contains(*(#[trigger] r@[i])) && f.ensures((&r@[i],), true)
{ unimplemented!() }
// `v.iter().find(f)`: a reference to the first element accepted by the closure
#[verifier::external_body]
pub fn vf_find_ref<'a, T, F: Fn(&&'a T) -> bool>(v: &'a Vec<T>, f: F) -> (r: Option<&'a T>)
    requires forall|x: &'a T| #[trigger] f.requires((&x,))
    ensures r matches Some(x) ==> v@.contains(*x) && f.ensures((&x,), true)
{ unimplemented!() }
// `v.contains(x)` (PartialEq = structural equality for the key types used)
#[verifier::external_body]
pub fn vf_vec_contains<T>(v: &Vec<T>, x: &T) -> (r: bool) ensures r == v@.contains(*x) { unimplemented!() }
// `v.iter().any(f)`
#[verifier::external_body]
pub fn vf_any<T, F: Fn(&T) -> bool>(v: &Vec<T>, f: F) -> (r: bool)
    requires forall|x: T| #[trigger] f.requires((&x,))
{ unimplemented!() }
pub open spec fn spec_filter_map<T, U>(s: Seq<T>, g: spec_fn(T) -> Option<U>) -> Seq<U>
    decreases s.len()
{
    if s.len() == 0 { Seq::<U>::empty() }
    else { match g(s.last()) { Some(u) => spec_filter_map(s.drop_last(), g).push(u), None => spec_filter_map(s.drop_last(), g) } }
}
impl<T> VIter<T> {
    // Iterator::filter_map: applies the closure in order, keeps the Some results
    #[verifier::external_body]
    pub fn filter_map<U, F: Fn(T) -> Option<U>>(self, f: F) -> (r: VIter<U>)
        requires forall|x: T| #[trigger] f.requires((x,)),
        ensures forall|g: spec_fn(T) -> Option<U>| (forall|x: T, o: Option<U>| #[trigger] f.ensures((x,), o) ==> o == g(x))
                    ==> r@ == #[trigger] spec_filter_map(self@, g),
    { unimplemented!() }
}
