// ===== prelude/armor.rs — TRUSTED BASE: iterator idioms / external crates used by slatepack armor =====
// L3: `X.iter().take_while(|byte| **byte != b'.').cloned().collect::<Vec<u8>>()` — longest prefix without the byte
pub open spec fn first_index_of(s: Seq<u8>, stop: u8) -> int
    decreases s.len()
{
    if s.len() == 0 { 0 } else if s[0] == stop { 0 } else { 1 + first_index_of(s.skip(1), stop) }
}
pub proof fn lemma_first_index_bound(s: Seq<u8>, stop: u8)
    ensures 0 <= first_index_of(s, stop) <= s.len()
    decreases s.len()
{ if s.len() > 0 && s[0] != stop { lemma_first_index_bound(s.skip(1), stop); } }
#[verifier::external_body]
pub fn vf_take_while_ne<S: VfSliceable<u8> + ?Sized>(s: &S, stop: u8) -> (r: Vec<u8>)
    ensures r@ == s.sl_view().take(first_index_of(s.sl_view(), stop)), r@.len() <= s.sl_view().len()
{ unimplemented!() }
// L3: `X.iter().filter(|byte| !LIST.contains(byte)).cloned().collect::<Vec<u8>>()`
#[verifier::external_body]
pub fn vf_filter_not_in(s: &Vec<u8>, list: &[u8; 5]) -> (r: Vec<u8>)
    ensures r@ == s@.filter(|b: u8| !list@.contains(b)), r@.len() <= s@.len()
{ unimplemented!() }
pub const WHITESPACE_LIST: [u8; 5] = [62u8, 10u8, 13u8, 9u8, 32u8]; // '>', '\n', '\r', '\t', ' '
// `a.iter().eq(b.iter())`
#[verifier::external_body]
pub fn vf_iter_eq(a: &[u8], b: &Vec<u8>) -> (r: bool) ensures r == (a@ == b@) { unimplemented!() }
// `s.to_vec()`
#[verifier::external_body]
pub fn vf_to_vec(s: &[u8]) -> (r: Vec<u8>) ensures r@ == s@ { unimplemented!() }
// bs58 / sha2 / regex / str::from_utf8: opaque total functions
pub struct Bs58Error { pub c: u8 }
#[verifier::external_body]
pub fn vf_bs58_decode(s: &Vec<u8>) -> (r: Result<Vec<u8>, Bs58Error>)
    ensures r matches Ok(v) ==> spec_bs58_decode(s@) == Some(v@), spec_bs58_decode(s@) is Some ==> r is Ok { unimplemented!() }
pub uninterp spec fn spec_bs58_decode(s: Seq<u8>) -> Option<Seq<u8>>;
pub uninterp spec fn spec_sha256(b: Seq<u8>) -> Seq<u8>;
#[verifier::external_body]
pub proof fn axiom_sha256_len(b: Seq<u8>) ensures spec_sha256(b).len() == 32 { }
pub struct Sha256 { pub st: Ghost<Seq<u8>> }
pub struct Sha256Out { pub b: [u8; 32] }
impl Sha256 {
    #[verifier::external_body]
    pub fn new() -> (r: Sha256) ensures r.st@ == Seq::<u8>::empty() { unimplemented!() }
    #[verifier::external_body]
    pub fn update<S: VfSliceable<u8>>(&mut self, data: S) ensures final(self).st@ == old(self).st@ + data.sl_view() { unimplemented!() }
    #[verifier::external_body]
    pub fn finalize(self) -> (r: Sha256Out) ensures r.b@ == spec_sha256(self.st@) { unimplemented!() }
}
impl VfSliceable<u8> for Sha256Out { type Out = [u8]; open spec fn sl_view(&self) -> Seq<u8> { self.b@ } open spec fn cut_ok(&self, a: int, b: int) -> bool { true } }
pub struct Utf8Error { pub c: u8 }
#[verifier::external_body]
pub fn vf_str_from_utf8(b: &[u8]) -> (r: Result<&str, Utf8Error>) ensures r matches Ok(s) ==> spec_utf8_text(b@) == Some(s@), spec_utf8_text(b@) is Some ==> r is Ok { unimplemented!() }
// the text a byte string is as UTF-8 (None: not UTF-8); whether a text matches regex number `r` (0: header, 1: footer)
pub uninterp spec fn spec_utf8_text(b: Seq<u8>) -> Option<Seq<char>>;
pub uninterp spec fn spec_regex_match(r: u8, s: Seq<char>) -> bool;
pub struct Regex { pub r: u8 }
impl Regex {
    #[verifier::external_body]
    pub fn is_match(&self, s: &str) -> (r: bool) ensures r == spec_regex_match(self.r, s@) { unimplemented!() }
}
pub const HEADER_REGEX: Regex = Regex { r: 0 };
pub const FOOTER_REGEX: Regex = Regex { r: 1 };
