// ===== prelude/sync.rs — TRUSTED BASE: Arc<Mutex<Box<dyn WalletInst>>> access path (L6), sequential view only =====
// Concurrency is NOT modelled (C20 is not applicable): lock() simply yields the protected value.
pub struct Arc<T> { pub v: T }
pub struct Mutex<T> { pub v: T }
impl<T> Clone for Arc<T> { #[verifier::external_body] fn clone(&self) -> (r: Self) { unimplemented!() } }
impl<T> Arc<Mutex<T>> {
    #[verifier::external_body]
    pub fn lock(&self) -> (r: &mut T) { unimplemented!() }
}
pub trait WalletLCProvider<'a, C, K> where C: NodeClient + 'a, K: Keychain + 'a {
    // A-store-wf: the store of an opened wallet is well formed (records under their own keys, commit caches hex or recomputable);
    // this is the precondition the same functions state explicitly when they are handed the wallet directly
    fn wallet_inst(&mut self) -> (r: Result<&mut Box<dyn WalletBackend<'a, C, K> + 'a>, Error>)
        ensures r matches Ok(w) ==> store_wf(w.state()) && log_amounts_ok(w.state()) && accounts_ok(w.state());   // + A-log-amounts, A-accounts
}
pub trait WalletInst<'a, L, C, K> where L: WalletLCProvider<'a, C, K>, C: NodeClient + 'a, K: Keychain + 'a {
    fn lc_provider(&mut self) -> Result<&mut (dyn WalletLCProvider<'a, C, K> + 'a), Error>;
}
