// ===== prelude/sync.rs — TRUSTED BASE: Arc<Mutex<Box<dyn WalletInst>>> access path (L6), sequential view only =====
// Concurrency is NOT modelled (C20 is not applicable): lock() simply yields the protected value.
pub struct Arc<T> { pub v: T }
pub struct Mutex<T> { pub v: T }
impl<T> Clone for Arc<T> { #[verifier::external_body] fn clone(&self) -> (r: Self) { unimplemented!() } }
impl<T> Arc<Mutex<T>> {
    #[verifier::external_body]
    pub fn lock(&self) -> (r: &mut T) { unimplemented!() }
}
pub trait WalletLCProvider<'a, C, K> where C: NodeClient + 'a, K: Keychain + 'a {
    fn wallet_inst(&mut self) -> Result<&mut Box<dyn WalletBackend<'a, C, K> + 'a>, Error>;
}
pub trait WalletInst<'a, L, C, K> where L: WalletLCProvider<'a, C, K>, C: NodeClient + 'a, K: Keychain + 'a {
    fn lc_provider(&mut self) -> Result<&mut (dyn WalletLCProvider<'a, C, K> + 'a), Error>;
}
