// ===== prelude/agecrypt.rs — TRUSTED BASE: age / sha2 / x25519 / bech32 as used by Slatepack::try_decrypt_payload =====
// Every value produced by decryption is chosen by the sender (C09); what the model fixes is only that each library call is a
// FUNCTION of its inputs (A-age: age / sha2 / x25519 / bech32 are deterministic), so that C10 can say which key and which
// bytes the result depends on.
pub uninterp spec fn spec_sha512(b: Seq<u8>) -> Seq<u8>;
pub uninterp spec fn spec_ed_secret_bytes(k: DalekSecretKey) -> Seq<u8>;
// the plaintext an age file yields to the identity made from these x25519 secret bytes (None: not decryptable by it)
pub uninterp spec fn spec_age_plain(file: Seq<u8>, x_secret: Seq<u8>) -> Option<Seq<u8>>;
pub struct Sha512 { pub st: Ghost<Seq<u8>> }
pub struct Sha512Out { pub b: [u8; 64] }
impl Sha512 {
    #[verifier::external_body]
    pub fn new() -> (r: Sha512) ensures r.st@ == Seq::<u8>::empty() { unimplemented!() }
    #[verifier::external_body]
    pub fn update(&mut self, b: [u8; 32]) ensures final(self).st@ == old(self).st@ + b@ { unimplemented!() }
    #[verifier::external_body]
    pub fn finalize(self) -> (r: Sha512Out) ensures r.b@ == spec_sha512(self.st@) { unimplemented!() }
}
impl VfSliceable<u8> for Sha512Out { type Out = [u8]; open spec fn sl_view(&self) -> Seq<u8> { self.b@ } open spec fn cut_ok(&self, a: int, b: int) -> bool { true } }
pub struct StaticSecret { pub k: [u8; 32] }
pub struct Base32Data { pub d: Ghost<Seq<u8>> }
pub struct XBytes { pub b: [u8; 32] }
impl StaticSecret {
    #[verifier::external_body]
    pub fn from(b: [u8; 32]) -> (r: StaticSecret) ensures r.k == b { unimplemented!() }
    #[verifier::external_body]
    pub fn to_bytes(&self) -> (r: XBytes) ensures r.b == self.k { unimplemented!() }
}
impl XBytes { #[verifier::external_body] pub fn to_base32(&self) -> (r: Base32Data) ensures r.d@ == self.b@ { unimplemented!() } }
pub struct Bech32Error { pub c: u8 }
pub struct AgeDecryptError { pub c: u8 }
pub struct AgeParseError { pub c: u8 }
pub struct IoError { pub c: u8 }
impl From<Bech32Error> for Error { #[verifier::external_body] fn from(e: Bech32Error) -> (r: Error) { unimplemented!() } }
impl From<AgeDecryptError> for Error { #[verifier::external_body] fn from(e: AgeDecryptError) -> (r: Error) { unimplemented!() } }
impl From<AgeParseError> for Error { #[verifier::external_body] fn from(e: AgeParseError) -> (r: Error) { unimplemented!() } }
impl From<IoError> for Error { #[verifier::external_body] fn from(e: IoError) -> (r: Error) { unimplemented!() } }
pub struct Bech32String { pub s: Ghost<Seq<u8>> }
pub mod bech32 {
    #[allow(unused_imports)] use super::*;
    #[verifier::external_body]
    pub fn encode(hrp: &str, data: Base32Data) -> (r: Result<Bech32String, Bech32Error>) ensures r matches Ok(s) ==> s.s@ == data.d@, data.d@.len() == 32 ==> r is Ok { unimplemented!() }
}
pub struct AgeIdentity { pub k: Ghost<Seq<u8>> }
impl Bech32String {
    // `.parse::<age::x25519::Identity>()`
    #[verifier::external_body]
    pub fn parse(&self) -> (r: Result<AgeIdentity, AgeParseError>) ensures r matches Ok(i) ==> i.k@ == self.s@, self.s@.len() == 32 ==> r is Ok { unimplemented!() }
}
pub struct RecipientsDecryptor { pub d: Ghost<Seq<u8>> }
pub struct PassphraseDecryptor { pub d: u8 }
// age::Decryptor::new parses the age header: the *sender* decides whether it is a recipients or a passphrase file
pub enum AgeDecryptor { Recipients(RecipientsDecryptor), Passphrase(PassphraseDecryptor) }
pub struct AgeStreamReader { pub r: Ghost<Seq<u8>> }
pub mod age {
    pub use crate::AgeDecryptor as Decryptor;
    pub use crate::AgeEncryptor as Encryptor;
    pub mod x25519 { pub use crate::AgeIdentity as Identity; }
}
impl AgeDecryptor {
    #[verifier::external_body]
    pub fn new(input: &[u8]) -> (r: Result<AgeDecryptor, AgeDecryptError>)
        ensures r matches Ok(AgeDecryptor::Recipients(d)) ==> d.d@ == input@,
            // A-age-total: a file some x25519 identity can open parses as a recipients file
            (exists|x: Seq<u8>| #[trigger] spec_age_plain(input@, x) is Some) ==> r matches Ok(AgeDecryptor::Recipients(_)) { unimplemented!() }
}
impl RecipientsDecryptor {
    // L17: `d.decrypt(std::iter::once(&key as &dyn age::Identity))`
    #[verifier::external_body]
    pub fn decrypt_with(self, key: &AgeIdentity) -> (r: Result<AgeStreamReader, AgeDecryptError>)
        ensures r matches Ok(rd) ==> spec_age_plain(self.d@, key.k@) == Some(rd.r@),
            // A-age: a file that this identity cannot open (not a recipient, or modified) is refused
            spec_age_plain(self.d@, key.k@) is None ==> r is Err,
            // A-age-total: ... and opens, completely, for that identity
            spec_age_plain(self.d@, key.k@) is Some ==> r is Ok { unimplemented!() }
}
impl AgeStreamReader {
    // std::io::Read::read_to_end: appends whatever the stream yields
    #[verifier::external_body]
    pub fn read_to_end(&mut self, buf: &mut Vec<u8>) -> (r: Result<usize, IoError>)
        ensures final(buf)@.len() >= old(buf)@.len(), r is Ok ==> final(buf)@ == old(buf)@ + old(self).r@, r is Ok { unimplemented!() }
    // std::io::Read::read: fills a PREFIX of the buffer with the next bytes of the stream — as many as the reader chooses to hand out
    // in one call (possibly fewer than are left), and says how many
    #[verifier::external_body]
    pub fn read(&mut self, buf: &mut Vec<u8>) -> (r: Result<usize, IoError>)
        ensures final(buf)@.len() == old(buf)@.len(),
            r matches Ok(n) ==> n <= old(buf)@.len() && n <= old(self).r@.len() && final(buf)@.take(n as int) == old(self).r@.take(n as int) && final(self).r@ == old(self).r@.skip(n as int)
    { unimplemented!() }
}
// L17: `Cursor::new(len_bytes).read_u32::<BigEndian>()`
#[verifier::external_body]
pub fn vf_read_u32_be(b: [u8; 4]) -> (r: Result<u32, IoError>) ensures r is Ok, r matches Ok(v) ==> v == spec_de32(b@) { unimplemented!() }
// Vec::split_off(at): panics if at > len
#[verifier::external_body]
pub fn vf_split_off(v: &mut Vec<u8>, at: usize) -> (r: Vec<u8>)
    requires at <= old(v)@.len()
    ensures final(v)@ == old(v)@.take(at as int), r@ == old(v)@.skip(at as int)
{ unimplemented!() }
// `use ed25519_dalek::SecretKey as edSecretKey;`
pub use crate::DalekSecretKey as edSecretKey;
// ed25519 secret key bytes
impl DalekSecretKey {
    #[verifier::external_body]
    pub fn as_bytes(&self) -> (r: &[u8; 32]) ensures r@ == spec_ed_secret_bytes(*self) { unimplemented!() }
}
// byte_ser::from_bytes::<SlatepackEncMetadataBin>: serde shim that runs SlatepackEncMetadataBin::read (verified separately)
// over the bytes; no effect other than the result
// what SlatepackEncMetadataBin::read decodes from these bytes
pub uninterp spec fn spec_enc_meta_of(b: Seq<u8>) -> Option<SlatepackEncMetadata>;
pub mod byte_ser {
    #[allow(unused_imports)] use super::*;
    pub struct ByteSerError { pub c: u8 }
    #[verifier::external_body]
    pub fn to_bytes_enc_meta(m: &SlatepackEncMetadataBin) -> (r: Result<Vec<u8>, ByteSerError>)
        ensures r matches Ok(v) ==> v@ == spec_enc_meta_bytes(m.0) { unimplemented!() }
    #[verifier::external_body]
    pub fn from_bytes_enc_meta(b: &Vec<u8>) -> (r: Result<SlatepackEncMetadataBin, ByteSerError>)
        ensures r matches Ok(m) ==> spec_enc_meta_of(b@) == Some(m.0), spec_enc_meta_of(b@) is Some ==> r is Ok { unimplemented!() }
}

// ---- encryption side (C10). age encryption is randomised: `age_encrypts(file, recipients, data)` is the RELATION "file is an age
// encryption of data to these x25519 recipient keys"; A-age-roundtrip: every recipient's identity opens it to exactly data.
pub uninterp spec fn age_encrypts(file: Seq<u8>, recipients: Seq<Seq<u8>>, data: Seq<u8>) -> bool;
pub uninterp spec fn spec_x25519_pub(x_secret: Seq<u8>) -> Seq<u8>;
#[verifier::external_body]
pub proof fn axiom_age_roundtrip(file: Seq<u8>, recipients: Seq<Seq<u8>>, data: Seq<u8>, x_secret: Seq<u8>)
    requires age_encrypts(file, recipients, data), recipients.contains(spec_x25519_pub(x_secret))
    ensures spec_age_plain(file, x_secret) == Some(data)
{ }
// the x25519 recipient key of a slatepack address (birational map of its ed25519 key); A-ed-x: it is the public key of the age
// identity made from SHA-512(ed25519 secret)[0..32] of the address's own secret key
pub uninterp spec fn spec_addr_xpub(a: SlatepackAddress) -> Seq<u8>;
pub uninterp spec fn spec_addr_of_secret(k: DalekSecretKey) -> SlatepackAddress;
#[verifier::external_body]
pub proof fn axiom_ed_x(k: DalekSecretKey)
    ensures spec_x25519_pub(spec_sha512(spec_ed_secret_bytes(k).take(32)).take(32)) == spec_addr_xpub(spec_addr_of_secret(k))
{ }
pub struct AgeRecipient { pub k: Ghost<Seq<u8>> }
// L3: `recipients.into_iter().map(|addr| { addr.to_age_pubkey_str()?.parse()? boxed }).collect::<Result<Vec<_>, _>>()`
#[verifier::external_body]
pub fn vf_age_recipients(recipients: Vec<SlatepackAddress>) -> (r: Result<Vec<AgeRecipient>, Error>)
    ensures r matches Ok(v) ==> v@.len() == recipients@.len() && forall|i: int| 0 <= i < v@.len() ==> (#[trigger] v@[i]).k@ == spec_addr_xpub(recipients@[i])
{ unimplemented!() }
pub struct AgeEncryptor { pub keys: Ghost<Seq<Seq<u8>>> }
impl AgeEncryptor {
    #[verifier::external_body]
    pub fn with_recipients(keys: Vec<AgeRecipient>) -> (r: AgeEncryptor) ensures r.keys@ == keys@.map(|i: int, k: AgeRecipient| k.k@) { unimplemented!() }
}
// L17: `let mut out = vec![]; let mut w = enc.wrap_output(&mut out)?; w.write_all(data)?; w.finish()?;` as one call
#[verifier::external_body]
pub fn vf_age_encrypt_all(enc: AgeEncryptor, data: &Vec<u8>) -> (r: Result<Vec<u8>, IoError>)
    ensures r matches Ok(v) ==> age_encrypts(v@, enc.keys@, data@)
{ unimplemented!() }
// what byte_ser::to_bytes(&SlatepackEncMetadataBin) produces / what byte_ser::from_bytes::<SlatepackEncMetadataBin> yields.
// A-shim: the two serde shims run SlatepackEncMetadataBin::write / ::read, which are verified in unit slatepack_bin against
// enc_meta / dec_meta (contracts/inc/spbin.toml). The former assumption A-meta-format ("the reader decodes what the writer
// produced") is now the lemma below, proved from the codec's round-trip lemma.
pub uninterp spec fn spec_enc_meta_bytes(m: SlatepackEncMetadata) -> Seq<u8>;
#[verifier::external_body]
pub proof fn axiom_shim_runs_write(m: SlatepackEncMetadata)
    ensures meta_wf(meta_view(m)) ==> spec_enc_meta_bytes(m) == enc_meta(meta_view(m))
{ }
#[verifier::external_body]
pub proof fn axiom_shim_runs_read(b: Seq<u8>)
    ensures
        dec_meta(b) matches Some((v, rest)) ==> (spec_enc_meta_of(b) matches Some(m) && meta_view(m) == v),
        spec_enc_meta_of(b) matches Some(m) ==> (dec_meta(b) matches Some((v, rest)) && meta_view(m) == v),
{ }
pub proof fn lemma_enc_meta_format(m: SlatepackEncMetadata)
    requires meta_wf(meta_view(m))
    ensures spec_enc_meta_bytes(m).len() >= 4, 4 + spec_de32(spec_enc_meta_bytes(m).take(4)) == spec_enc_meta_bytes(m).len(),
        spec_enc_meta_of(spec_enc_meta_bytes(m)) matches Some(m2) && meta_view(m2) == meta_view(m)
{
    axiom_shim_runs_write(m);
    let b = enc_meta(meta_view(m));
    lemma_meta_roundtrip(meta_view(m), Seq::<u8>::empty());
    assert(b + Seq::<u8>::empty() =~= b);
    axiom_shim_runs_read(b);
}
