// ===== prelude/agecrypt.rs — TRUSTED BASE: age / sha2 / x25519 / bech32 as used by Slatepack::try_decrypt_payload =====
// Every value produced by decryption is unconstrained: the sender chooses it.
pub struct Sha512 { pub st: Ghost<Seq<u8>> }
pub struct Sha512Out { pub b: [u8; 64] }
impl Sha512 {
    #[verifier::external_body]
    pub fn new() -> (r: Sha512) { unimplemented!() }
    #[verifier::external_body]
    pub fn update(&mut self, b: [u8; 32]) { unimplemented!() }
    #[verifier::external_body]
    pub fn finalize(self) -> (r: Sha512Out) { unimplemented!() }
}
impl VfSliceable<u8> for Sha512Out { open spec fn sl_view(&self) -> Seq<u8> { self.b@ } }
pub struct StaticSecret { pub k: [u8; 32] }
pub struct Base32Data { pub d: u8 }
pub struct XBytes { pub b: [u8; 32] }
impl StaticSecret {
    #[verifier::external_body]
    pub fn from(b: [u8; 32]) -> (r: StaticSecret) { unimplemented!() }
    #[verifier::external_body]
    pub fn to_bytes(&self) -> (r: XBytes) { unimplemented!() }
}
impl XBytes { #[verifier::external_body] pub fn to_base32(&self) -> (r: Base32Data) { unimplemented!() } }
pub struct Bech32Error { pub c: u8 }
pub struct AgeDecryptError { pub c: u8 }
pub struct AgeParseError { pub c: u8 }
pub struct IoError { pub c: u8 }
impl From<Bech32Error> for Error { #[verifier::external_body] fn from(e: Bech32Error) -> (r: Error) { unimplemented!() } }
impl From<AgeDecryptError> for Error { #[verifier::external_body] fn from(e: AgeDecryptError) -> (r: Error) { unimplemented!() } }
impl From<AgeParseError> for Error { #[verifier::external_body] fn from(e: AgeParseError) -> (r: Error) { unimplemented!() } }
impl From<IoError> for Error { #[verifier::external_body] fn from(e: IoError) -> (r: Error) { unimplemented!() } }
pub struct Bech32String { pub s: u8 }
pub mod bech32 {
    #[allow(unused_imports)] use super::*;
    #[verifier::external_body]
    pub fn encode(hrp: &str, data: Base32Data) -> (r: Result<Bech32String, Bech32Error>) { unimplemented!() }
}
pub struct AgeIdentity { pub k: u8 }
impl Bech32String {
    // `.parse::<age::x25519::Identity>()`
    #[verifier::external_body]
    pub fn parse(&self) -> (r: Result<AgeIdentity, AgeParseError>) { unimplemented!() }
}
pub struct RecipientsDecryptor { pub d: u8 }
pub struct PassphraseDecryptor { pub d: u8 }
// age::Decryptor::new parses the age header: the *sender* decides whether it is a recipients or a passphrase file
pub enum AgeDecryptor { Recipients(RecipientsDecryptor), Passphrase(PassphraseDecryptor) }
pub struct AgeStreamReader { pub r: u8 }
pub mod age {
    pub use crate::AgeDecryptor as Decryptor;
    pub mod x25519 { pub use crate::AgeIdentity as Identity; }
}
impl AgeDecryptor {
    #[verifier::external_body]
    pub fn new(input: &[u8]) -> (r: Result<AgeDecryptor, AgeDecryptError>) { unimplemented!() }
}
impl RecipientsDecryptor {
    // L17: `d.decrypt(std::iter::once(&key as &dyn age::Identity))`
    #[verifier::external_body]
    pub fn decrypt_with(self, key: &AgeIdentity) -> (r: Result<AgeStreamReader, AgeDecryptError>) { unimplemented!() }
}
impl AgeStreamReader {
    // std::io::Read::read_to_end: appends whatever the stream yields
    #[verifier::external_body]
    pub fn read_to_end(&mut self, buf: &mut Vec<u8>) -> (r: Result<usize, IoError>)
        ensures final(buf)@.len() >= old(buf)@.len() { unimplemented!() }
}
// L17: `Cursor::new(len_bytes).read_u32::<BigEndian>()`
#[verifier::external_body]
pub fn vf_read_u32_be(b: [u8; 4]) -> (r: Result<u32, IoError>) ensures r is Ok { unimplemented!() }
// Vec::split_off(at): panics if at > len
#[verifier::external_body]
pub fn vf_split_off(v: &mut Vec<u8>, at: usize) -> (r: Vec<u8>)
    requires at <= old(v)@.len()
    ensures final(v)@ == old(v)@.take(at as int), r@ == old(v)@.skip(at as int)
{ unimplemented!() }
// `use ed25519_dalek::SecretKey as edSecretKey;`
pub use crate::DalekSecretKey as edSecretKey;
// ed25519 secret key bytes
impl DalekSecretKey {
    #[verifier::external_body]
    pub fn as_bytes(&self) -> (r: &[u8; 32]) { unimplemented!() }
}
// byte_ser::from_bytes::<SlatepackEncMetadataBin>: serde shim that runs SlatepackEncMetadataBin::read (verified separately)
// over the bytes; no effect other than the result
pub mod byte_ser {
    #[allow(unused_imports)] use super::*;
    pub struct ByteSerError { pub c: u8 }
    #[verifier::external_body]
    pub fn from_bytes_enc_meta(b: &Vec<u8>) -> (r: Result<SlatepackEncMetadataBin, ByteSerError>) { unimplemented!() }
}
