// ===== prelude/bigtime.rs — TRUSTED BASE: chrono::DateTime<Utc> ordering and num_bigint::BigInt =====
// (A-order: chrono/BigInt comparison = comparison of the instant / the integer value)
impl<Tz> Clone for DateTime<Tz> {
    #[verifier::external_body]
    fn clone(&self) -> (r: Self) ensures r == *self { unimplemented!() }
}
impl<Tz> Copy for DateTime<Tz> {}
impl<Tz> PartialEq for DateTime<Tz> {
    fn eq(&self, other: &Self) -> (r: bool) { self.secs == other.secs }
}
impl<Tz> vstd::std_specs::cmp::PartialEqSpecImpl for DateTime<Tz> {
    open spec fn obeys_eq_spec() -> bool { true }
    open spec fn eq_spec(&self, other: &Self) -> bool { self.secs == other.secs }
}
impl<Tz> vstd::std_specs::cmp::PartialOrdSpecImpl for DateTime<Tz> {
    open spec fn obeys_partial_cmp_spec() -> bool { true }
    open spec fn partial_cmp_spec(&self, other: &Self) -> Option<core::cmp::Ordering> {
        if self.secs < other.secs { Some(core::cmp::Ordering::Less) } else if self.secs == other.secs { Some(core::cmp::Ordering::Equal) } else { Some(core::cmp::Ordering::Greater) }
    }
}
impl<Tz> PartialOrd for DateTime<Tz> {
    fn partial_cmp(&self, other: &Self) -> (r: Option<core::cmp::Ordering>) {
        if self.secs < other.secs { Some(core::cmp::Ordering::Less) } else if self.secs == other.secs { Some(core::cmp::Ordering::Equal) } else { Some(core::cmp::Ordering::Greater) }
    }
}
impl<Tz> KeyRank for DateTime<Tz> { open spec fn rank(&self) -> int { self.secs as int } }
// Option<DateTime>: None sorts first (derive(Ord) on Option)
impl<Tz> KeyRank for Option<DateTime<Tz>> { open spec fn rank(&self) -> int { match self { None => i64::MIN as int - 1, Some(t) => t.secs as int } } }

#[verifier::external_body]
pub struct BigInt { inner: i128 }
impl View for BigInt { type V = int; uninterp spec fn view(&self) -> int; }
impl KeyRank for BigInt { open spec fn rank(&self) -> int { self@ } }
impl From<u64> for BigInt {
    #[verifier::external_body]
    fn from(v: u64) -> (r: BigInt) ensures r@ == v as int { unimplemented!() }
}
// L11: `BigInt::from(a) - BigInt::from(b)` and its comparison with `BigInt::from(v)`
#[verifier::external_body]
pub fn vf_big_diff(a: u64, b: u64) -> (r: BigInt) ensures r@ == a as int - b as int { unimplemented!() }
#[verifier::external_body]
pub fn vf_big_diff_ge(a: u64, b: u64, v: u64) -> (r: bool) ensures r == (a as int - b as int >= v as int) { unimplemented!() }
#[verifier::external_body]
pub fn vf_big_diff_le(a: u64, b: u64, v: u64) -> (r: bool) ensures r == (a as int - b as int <= v as int) { unimplemented!() }
