// ===== prelude/serdejson.rs — TRUSTED BASE for the hand-written serde field decoders of slate_versions/ser.rs (C09) =====
// serde's data model reduced to what these functions use: a deserializer yields a text (or an optional text) or an error of
// its own error type; `serde::de::Error::custom` builds such an error from a message. Nothing is assumed about the text.
pub trait Error: Sized { fn custom<T>(msg: T) -> Self; }   // serde::de::Error::custom<T: Display>
pub mod serde { pub mod de { pub use crate::Error; } }   // `use serde::de::Error;` inside a function body
pub trait Deserializer<'de>: Sized { type Error: Error; }
pub trait Deserialize<'de>: Sized { fn deserialize<D: Deserializer<'de>>(d: D) -> Result<Self, D::Error>; }
// what the deserializer holds: None = not a string (a serde error); for the optional form Some(None) = JSON null / absent
pub uninterp spec fn spec_de_text<D>(d: D) -> Option<String>;
pub uninterp spec fn spec_de_opt_text<D>(d: D) -> Option<Option<String>>;
impl<'de> Deserialize<'de> for String {
    #[verifier::external_body]
    fn deserialize<D: Deserializer<'de>>(d: D) -> (r: Result<Self, D::Error>)
        ensures r matches Ok(s) ==> spec_de_text(d) == Some(s), r is Err ==> spec_de_text(d) is None
    { unimplemented!() }
}
impl<'de> Deserialize<'de> for Option<String> {
    #[verifier::external_body]
    fn deserialize<D: Deserializer<'de>>(d: D) -> (r: Result<Self, D::Error>)
        ensures r matches Ok(s) ==> spec_de_opt_text(d) == Some(s), r is Err ==> spec_de_opt_text(d) is None
    { unimplemented!() }
}
// std: Result::and_then (not specified by vstd)
pub assume_specification<T, E, U, F: FnOnce(T) -> Result<U, E>> [Result::<T, E>::and_then] (r: Result<T, E>, f: F) -> (out: Result<U, E>)
    requires r matches Ok(t) ==> f.requires((t,)),
    ensures match r { Ok(t) => f.ensures((t,), out), Err(e) => out == Err::<U, E>(e) };
// hex / base64 text -> bytes (total; A-hex)
pub struct DecodeError { pub c: u8 }
pub uninterp spec fn spec_b64_bytes(s: String) -> Option<Seq<u8>>;
pub mod base64 {
    #[allow(unused_imports)] use super::*;
    #[verifier::external_body]
    pub fn decode(s: &String) -> (r: Result<Vec<u8>, DecodeError>)
        ensures r matches Ok(v) ==> spec_b64_bytes(*s) == Some(v@), r is Err ==> spec_b64_bytes(*s) is None { unimplemented!() }
}
pub uninterp spec fn spec_hex_bytes(s: String) -> Option<Seq<u8>>;
#[verifier::external_body]
pub fn from_hex(s: &String) -> (r: Result<Vec<u8>, DecodeError>)
    ensures r matches Ok(v) ==> spec_hex_bytes(*s) == Some(v@), r is Err ==> spec_hex_bytes(*s) is None { unimplemented!() }
// ed25519-dalek / x25519-dalek / uuid values from bytes: total functions (Err / None for bytes that are no such value)
pub struct SignatureError { pub c: u8 }
pub struct DalekPublicKey { pub hi: u128, pub lo: u128 }
pub struct DalekSecretKey { pub hi: u128, pub lo: u128 }
pub struct DalekSignature { pub a: u128, pub b: u128, pub c: u128, pub d: u128 }
#[allow(non_camel_case_types)]
pub struct xDalekPublicKey { pub hi: u128, pub lo: u128 }
pub struct Uuid { pub v: u128 }
pub uninterp spec fn spec_dalek_pk_from(b: Seq<u8>) -> Option<DalekPublicKey>;
pub uninterp spec fn spec_dalek_sk_from(b: Seq<u8>) -> Option<DalekSecretKey>;
pub uninterp spec fn spec_dalek_sig_from(b: Seq<u8>) -> Option<DalekSignature>;
pub uninterp spec fn spec_xkey_from(b: Seq<u8>) -> xDalekPublicKey;
pub uninterp spec fn spec_uuid_from(b: Seq<u8>) -> Uuid;
impl DalekPublicKey {
    // ed25519_dalek::PublicKey::from_bytes(&[u8]): Err unless 32 bytes that decompress
    #[verifier::external_body]
    pub fn from_bytes(b: &[u8]) -> (r: Result<DalekPublicKey, SignatureError>)
        ensures r matches Ok(k) ==> spec_dalek_pk_from(b@) == Some(k), r is Err ==> spec_dalek_pk_from(b@) is None
    { unimplemented!() }
}
impl DalekSecretKey {
    #[verifier::external_body]
    pub fn from_bytes(b: &[u8]) -> (r: Result<DalekSecretKey, SignatureError>)
        ensures r matches Ok(k) ==> spec_dalek_sk_from(b@) == Some(k), r is Err ==> spec_dalek_sk_from(b@) is None
    { unimplemented!() }
}
impl DalekSignature {
    // TryFrom<[u8; 64]>
    #[verifier::external_body]
    pub fn try_from(b: [u8; 64]) -> (r: Result<DalekSignature, SignatureError>)
        ensures r matches Ok(k) ==> spec_dalek_sig_from(b@) == Some(k), r is Err ==> spec_dalek_sig_from(b@) is None
    { unimplemented!() }
}
// `xDalekPublicKey::from(b)` (From<[u8; 32]>)
#[verifier::external_body]
pub fn vf_xkey_from(b: [u8; 32]) -> (r: xDalekPublicKey) ensures r == spec_xkey_from(b@) { unimplemented!() }
impl Uuid {
    #[verifier::external_body]
    pub fn from_bytes(b: [u8; 16]) -> (r: Uuid) ensures r == spec_uuid_from(b@) { unimplemented!() }
}
// `err.to_string()` / `format!(..)`: an unconstrained message
#[verifier::external_body]
pub fn vf_format() -> (r: String) { unimplemented!() }
// ---- the remaining text decoders of ser.rs
// `s.split(':').collect::<Vec<&str>>()`: the pieces between colons (at least one piece)
pub uninterp spec fn spec_split_colon(s: String) -> Seq<String>;
pub uninterp spec fn spec_str_of(s: &str) -> String;
#[verifier::external_body]
pub fn vf_split_colon(s: &String) -> (r: Vec<&str>)
    ensures r@.len() == spec_split_colon(*s).len(), r@.len() >= 1, forall|i: int| 0 <= i < r@.len() ==> spec_str_of(#[trigger] r@[i]) == spec_split_colon(*s)[i]
{ unimplemented!() }
// u16::from_str_radix(text, 10)
#[verifier::external_type_specification]
#[verifier::external_body]
pub struct ExParseIntError(core::num::ParseIntError);
pub uninterp spec fn spec_u16_dec(s: String) -> Option<u16>;
pub assume_specification [u16::from_str_radix] (src: &str, radix: u32) -> (r: Result<u16, core::num::ParseIntError>)
    ensures radix == 10 ==> ((r matches Ok(v) ==> spec_u16_dec(spec_str_of(src)) == Some(v)) && (r is Err ==> spec_u16_dec(spec_str_of(src)) is None));
// util::OnionV3Address::try_from(&str) (verified in unit util_ov3): a total function of the text
pub struct OnionV3Address { pub k: [u8; 32] }
pub struct OnionV3AddressError { pub c: u8 }
pub uninterp spec fn spec_onion_parse(s: String) -> Option<OnionV3Address>;
#[verifier::external_body]
pub fn vf_onion_try_from(s: &String) -> (r: Result<OnionV3Address, OnionV3AddressError>)
    ensures r matches Ok(a) ==> spec_onion_parse(*s) == Some(a), r is Err ==> spec_onion_parse(*s) is None { unimplemented!() }
