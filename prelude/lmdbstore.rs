// ===== prelude/lmdbstore.rs — TRUSTED BASE: grin_store::lmdb::{Store, Batch} and the LMDBBackend ↔ abstract state link =====
// The raw store is a byte-keyed table. Reads through `db.batch()?.get_ser(key)` see the committed table.
pub mod store {
    pub use crate::RawStore as Store;
    pub use crate::RawBatch as Batch;
    pub use crate::StoreError as Error;
}
pub struct StoreError { pub code: u8 }
pub uninterp spec fn spec_store_msg(e: StoreError) -> String;
impl vstd::std_specs::convert::FromSpecImpl<StoreError> for Error { open spec fn obeys_from_spec() -> bool { true } open spec fn from_spec(e: StoreError) -> Self { Error::Backend(spec_store_msg(e)) } }
impl From<StoreError> for Error { #[verifier::external_body] fn from(e: StoreError) -> (r: Error) ensures r == Error::Backend(spec_store_msg(e)) { unimplemented!() } }
#[verifier::external_body]
pub struct RawStore { inner: u8 }
#[verifier::external_body]
pub struct RawBatch<'a> { inner: &'a u8 }
// decoded value stored under a key, for each stored type (serialisation assumed inverse: C08 covers the hand-written codecs)
pub uninterp spec fn raw_get<T>(db: &RawStore, key: Seq<u8>) -> Option<T>;
impl RawStore {
    #[verifier::external_body]
    pub fn batch(&self) -> (r: Result<RawBatch<'_>, StoreError>)
        ensures r matches Ok(b) ==> b.store() == self && !b.writable() { unimplemented!() }
}
impl RawStore {
    // Store::get_ser: the committed value under the key
    #[verifier::external_body]
    pub fn get_ser<T>(&self, key: &[u8], deser_mode: Option<u8>) -> (r: Result<Option<T>, StoreError>)
        ensures r matches Ok(v) ==> v == raw_get::<T>(self, key@) { unimplemented!() }
}
// grin_store::option_to_not_found: Ok(Some(v)) -> Ok(v), Ok(None) -> Err(NotFoundErr(msg())), Err(e) -> Err(e)
#[verifier::external_body]
pub fn option_to_not_found<T, F: Fn() -> String>(res: Result<Option<T>, StoreError>, field_name: F) -> (r: Result<T, StoreError>)
    ensures (r matches Ok(v) ==> res == Ok::<Option<T>, StoreError>(Some(v))), (res matches Ok(Some(v)) ==> r == Ok::<T, StoreError>(v))
{ unimplemented!() }
impl<'a> RawBatch<'a> {
    pub uninterp spec fn store(&self) -> &RawStore;
    // C14 gate: a raw batch is WRITTEN only from inside the `Batch` wrapper (which exists only through LMDBBackend::batch(mask) — after
    // the token check — or batch_no_mask); the batch a backend method takes directly from `self.db.batch()` is for reading only
    pub uninterp spec fn writable(&self) -> bool;
    #[verifier::external_body]
    pub fn get_ser<T>(&self, key: &[u8], deser_mode: Option<u8>) -> (r: Result<Option<T>, StoreError>)
        ensures r matches Ok(v) ==> v == raw_get::<T>(self.store(), key@) { unimplemented!() }
}
pub uninterp spec fn spec_to_key(prefix: u8, k: Seq<u8>) -> Seq<u8>;
#[verifier::external_body]
pub fn to_key(prefix: u8, k: &mut Vec<u8>) -> (r: Vec<u8>) ensures r@ == spec_to_key(prefix, old(k)@) { unimplemented!() }
pub const DERIV_PREFIX: u8 = 100; // b'd'
// blake2_rfc: keyed-less Blake2b of the bytes fed in (A-crypto: collision resistance is not needed by the proofs)
#[derive(PartialEq, Eq, Structural)]
pub struct Blake2bResult { pub a: u128, pub b: u128 }
pub uninterp spec fn spec_blake2b(n: usize, data: Seq<u8>) -> Blake2bResult;
pub struct Blake2b { pub n: usize, pub st: Ghost<Seq<u8>> }
impl Blake2b {
    #[verifier::external_body]
    pub fn new(n: usize) -> (r: Blake2b) ensures r.n == n && r.st@ == Seq::<u8>::empty() { unimplemented!() }
    #[verifier::external_body]
    pub fn update(&mut self, data: &[u8]) ensures final(self).n == old(self).n && final(self).st@ == old(self).st@ + data@ { unimplemented!() }
    #[verifier::external_body]
    pub fn finalize(self) -> (r: Blake2bResult) ensures r == spec_blake2b(self.n, self.st@) { unimplemented!() }
}
pub const SECRET_KEY_SIZE: usize = 32;
// std::cell::RefCell (interior mutability holder of the raw batch): opaque
pub struct RefCell<T> { pub v: T }
impl<T> RefCell<T> {
    #[verifier::external_body]
    pub fn new(v: T) -> (r: RefCell<T>) { unimplemented!() }
}
pub const PRIVATE_TX_CONTEXT_PREFIX: u8 = 112; // b'p'
pub uninterp spec fn spec_to_key_u64(prefix: u8, k: Seq<u8>, v: u64) -> Seq<u8>;
#[verifier::external_body]
pub fn to_key_u64(prefix: u8, k: &mut Vec<u8>, val: u64) -> (r: Vec<u8>) ensures r@ == spec_to_key_u64(prefix, old(k)@, val) { unimplemented!() }
// "value v was written under key k in this raw batch" (event predicate: the raw batch is behind a RefCell)
pub uninterp spec fn was_put<T>(b: &RawBatch, key: Seq<u8>, v: T) -> bool;
impl<'a> RawBatch<'a> {
    #[verifier::external_body]
    pub fn put_ser<T>(&self, key: &[u8], value: &T) -> (r: Result<(), StoreError>)
        requires self.writable()
        ensures r is Ok ==> was_put(self, key@, *value) { unimplemented!() }
    // commit of a RAW batch: writes the store directly, without any keychain / token check (nothing else is specified)
    #[verifier::external_body]
    pub fn commit(self) -> (r: Result<(), StoreError>) requires self.writable() { unimplemented!() }
}
// `self.db.borrow().as_ref().unwrap()`: the raw batch; panics once the batch has been committed (db taken)
pub uninterp spec fn refcell_holds<'a>(c: &RefCell<Option<RawBatch<'a>>>) -> bool;
#[verifier::external_body]
pub fn vf_batch_db<'b, 'a>(c: &'b RefCell<Option<RawBatch<'a>>>) -> (r: &'b RawBatch<'a>)
    requires refcell_holds(c) ensures r == vf_db_of(c), r.writable() { unimplemented!() }
impl Blake2bResult {
    #[verifier::external_body]
    pub fn as_bytes(&self) -> (r: &[u8]) ensures r@ == spec_blake_bytes(*self), r@.len() == 32 { unimplemented!() }
}
pub uninterp spec fn spec_blake_bytes(b: Blake2bResult) -> Seq<u8>;
#[verifier::external_body]
pub fn vf_tag_blind() -> (r: &'static [u8]) ensures r@ == seq![98u8, 108u8, 105u8, 110u8, 100u8] { unimplemented!() }
#[verifier::external_body]
pub fn vf_tag_nonce() -> (r: &'static [u8]) ensures r@ == seq![110u8, 111u8, 110u8, 99u8, 101u8] { unimplemented!() }
#[verifier::external_body]
pub fn vf_slice_to_vec_u8(s: &[u8]) -> (r: Vec<u8>) ensures r@ == s@ { unimplemented!() }
pub uninterp spec fn vf_db_of<'b, 'a>(c: &'b RefCell<Option<RawBatch<'a>>>) -> &'b RawBatch<'a>;
