// ===== prelude/ext.rs — TRUSTED BASE: opaque stand-ins for external crates =====
// (grin_util::secp, grin_keychain, grin_core, uuid, chrono, ed25519_dalek). Nothing is assumed
// about them beyond what each `ensures` states.

pub struct SecretKey(pub [u8; 32]);
impl Clone for SecretKey {
    #[verifier::external_body]
    fn clone(&self) -> (r: Self) ensures r == *self { unimplemented!() }
}
pub struct Secp256k1 { pub ctx: u8 }
// 33-byte compressed point; structural equality (exec `==` is spec `==`)
#[derive(PartialEq, Eq, Structural)]
pub struct PublicKey { pub hi: u128, pub mid: u128, pub lo: u8 }
pub struct Commitment(pub [u8; 33]);
impl Clone for Commitment {
    #[verifier::external_body]
    fn clone(&self) -> (r: Self) ensures r == *self { unimplemented!() }
}
impl Copy for Commitment {}
pub mod pedersen { pub use crate::Commitment; }

#[derive(PartialEq, Eq, Structural)]
pub struct Uuid { pub v: u128 }
impl Clone for Uuid {
    #[verifier::external_body]
    fn clone(&self) -> (r: Self) ensures r == *self { unimplemented!() }
}
impl Copy for Uuid {}

// grin_core::core::FeeFields: (fee_shift << 40) | fee; view is the raw u64
pub struct FeeFields { pub raw: u64 }
impl Clone for FeeFields {
    #[verifier::external_body]
    fn clone(&self) -> (r: Self) ensures r == *self { unimplemented!() }
}
impl Copy for FeeFields {}

pub uninterp spec fn spec_root_key_id<K>() -> Identifier;
#[derive(PartialEq, Eq, Structural)]
pub struct SwitchCommitmentType { pub t: u8 }
#[allow(non_upper_case_globals)]
impl SwitchCommitmentType { pub const Regular: SwitchCommitmentType = SwitchCommitmentType { t: 1 }; pub const None: SwitchCommitmentType = SwitchCommitmentType { t: 0 }; }
pub trait Keychain: Sized + Clone {
    fn secp(&self) -> &Secp256k1;
    // XOR the master key with the token (grin_keychain): functional in (keychain, mask)
    spec fn spec_masked(&self, mask: SecretKey) -> Self;
    spec fn spec_derive(&self, amount: u64, id: Identifier) -> SecretKey;
    fn mask_master_key(&mut self, mask: &SecretKey) -> (r: Result<(), grin_keychain::Error>)
        ensures r is Ok ==> *final(self) == old(self).spec_masked(*mask);
    fn root_key_id() -> (r: Identifier) ensures r == spec_root_key_id::<Self>();
    fn derive_key(&self, amount: u64, id: &Identifier, switch: SwitchCommitmentType) -> (r: Result<SecretKey, grin_keychain::Error>)
        ensures r matches Ok(k) ==> k == self.spec_derive(amount, *id);
    // Pedersen commitment value*H + derive_key(..)*G; fails only where the key derivation fails
    fn commit(&self, amount: u64, id: &Identifier, switch: SwitchCommitmentType) -> (r: Result<Commitment, grin_keychain::Error>)
        ensures spec_commit_defined(amount, *id) ==> r is Ok, r matches Ok(c) ==> c == spec_keychain_commit(amount, *id);
}
// (a function of amount and path for one seed)
pub uninterp spec fn spec_keychain_commit(amount: u64, id: Identifier) -> Commitment;
// key derivation (and hence commit) is defined for this amount / path (A-crypto: true for every path the wallet itself derived)
pub uninterp spec fn spec_commit_defined(amount: u64, id: Identifier) -> bool;
pub uninterp spec fn spec_commit_from_vec(b: Seq<u8>) -> Commitment;
impl Commitment {
    #[verifier::external_body]
    pub fn from_vec(v: Vec<u8>) -> (r: Commitment) ensures r == spec_commit_from_vec(v@) { unimplemented!() }
}
pub uninterp spec fn kernel_on_chain(excess: Commitment) -> bool;   // the node reports a kernel with this excess
pub trait NodeClient: Sized + Clone {
    fn get_kernel(&mut self, excess: &Commitment, min_height: Option<u64>, max_height: Option<u64>) -> (r: Result<Option<(TxKernel, u64, u64)>, Error>)
        ensures r matches Ok(Some(k)) ==> kernel_on_chain(*excess),
            // A-node: a node that answers "no such kernel" is believed
            r matches Ok(None) ==> !kernel_on_chain(*excess);
    // chain tip (height, hash) as reported by the node — any value, may fail
    // (A-node-height: a height below 2^64 - 1; the wallet computes height + 1)
    fn get_chain_tip(&self) -> (r: Result<(u64, String), Error>)
        ensures r matches Err(e) ==> store_err(e), r matches Ok(t) ==> t.0 < u64::MAX;
    // A-node: the node answers exactly for those of the commitments asked that are in its unspent set, with their height
    fn get_outputs_from_node(&self, wallet_outputs: Vec<Commitment>) -> (r: Result<HashMap<Commitment, (String, u64, u64)>, Error>)
        ensures r matches Ok(m) ==> forall|c: Commitment| (#[trigger] m@.dom().contains(c) <==> (wallet_outputs@.contains(c) && utxo_height(c) is Some))
                && (m@.dom().contains(c) ==> m@[c].1 == utxo_height(c)->Some_0);
}
// the node's unspent output set at the time of the call: the block height of the unspent output with this commitment
pub uninterp spec fn utxo_height(c: Commitment) -> Option<u64>;
// L3: `map.keys().copied().collect()`
#[verifier::external_body]
pub fn vf_map_keys<K: Copy, V>(m: &HashMap<K, V>) -> (r: Vec<K>)
    ensures forall|k: K| r@.contains(k) <==> #[trigger] m@.dom().contains(k)
{ unimplemented!() }
pub trait ProofBuild { }

// grin_core::core::amount_to_hr_string — display only
#[verifier::external_body]
pub fn amount_to_hr_string(amount: u64, truncate: bool) -> (r: String) { unimplemented!() }

// ---- grin_core::libtx::tx_fee = weight_by_iok(i,o,k) (saturating, weights 1/21/3) * accept_fee_base
pub uninterp spec fn spec_fee_base() -> int;
pub open spec fn spec_weight(i: int, o: int, k: int) -> int { i + 21 * o + 3 * k }
pub open spec fn spec_tx_fee(i: int, o: int, k: int) -> int { spec_weight(i, o, k) * spec_fee_base() }
// assumption A-fee: 0 < accept_fee_base <= 10^9 (mainnet: 500_000)
#[verifier::external_body]
pub proof fn axiom_fee_base() ensures 0 < spec_fee_base() <= 1_000_000_000 { }
#[verifier::external_body]
pub fn tx_fee(input_len: usize, output_len: usize, kernel_len: usize) -> (r: u64)
    requires input_len < 0x1000_0000, output_len < 0x1000_0000, kernel_len < 0x1000_0000,
    ensures r == spec_tx_fee(input_len as int, output_len as int, kernel_len as int)
{ unimplemented!() }
pub proof fn lemma_tx_fee_bounds(i: int, o: int, k: int)
    requires 0 <= i < 0x1000_0000, 0 <= o < 0x1000_0000, 0 <= k < 0x1000_0000
    ensures 0 <= spec_tx_fee(i, o, k) < 0x8000_0000_0000_0000, (i + o + k > 0 ==> spec_tx_fee(i, o, k) > 0)
{
    axiom_fee_base();
    assert(spec_weight(i, o, k) <= 25 * 0x1000_0000);
    assert(spec_weight(i, o, k) * spec_fee_base() <= 25 * 0x1000_0000 * 1_000_000_000) by (nonlinear_arith)
        requires 0 <= spec_weight(i, o, k) <= 25 * 0x1000_0000, 0 < spec_fee_base() <= 1_000_000_000;
    assert(i + o + k > 0 ==> spec_weight(i, o, k) * spec_fee_base() > 0) by (nonlinear_arith)
        requires 0 <= spec_weight(i, o, k), i + o + k > 0 ==> spec_weight(i, o, k) > 0, 0 < spec_fee_base();
    assert(0 <= spec_weight(i, o, k) * spec_fee_base()) by (nonlinear_arith)
        requires 0 <= spec_weight(i, o, k), 0 < spec_fee_base();
}
pub proof fn lemma_tx_fee_monotone(i: int, o1: int, o2: int, k: int)
    requires 0 <= i, 0 <= o1 <= o2, 0 <= k
    ensures spec_tx_fee(i, o1, k) <= spec_tx_fee(i, o2, k)
{
    axiom_fee_base();
    assert(spec_weight(i, o1, k) * spec_fee_base() <= spec_weight(i, o2, k) * spec_fee_base()) by (nonlinear_arith)
        requires spec_weight(i, o1, k) <= spec_weight(i, o2, k), 0 < spec_fee_base();
}

// chrono / std::time / ed25519_dalek / grin_core::core::Transaction: opaque values
pub struct Utc;
pub struct DateTime<Tz> { pub secs: i64, pub tz: core::marker::PhantomData<Tz> }
pub struct Duration { pub secs: u64 }
#[derive(PartialEq, Eq, Structural)]
pub struct DalekPublicKey { pub hi: u128, pub lo: u128 }
impl Clone for DalekPublicKey {
    #[verifier::external_body]
    fn clone(&self) -> (r: Self) ensures r == *self { unimplemented!() }
}
impl Copy for DalekPublicKey {}
pub uninterp spec fn spec_dalek_bytes(pk: DalekPublicKey) -> Seq<u8>;
impl DalekPublicKey {
    #[verifier::external_body]
    pub fn to_bytes(&self) -> (r: [u8; 32]) ensures r@ == spec_dalek_bytes(*self) { unimplemented!() }
}
#[derive(PartialEq, Eq, Structural)]
pub struct DalekSignature { pub a: u128, pub b: u128, pub c: u128, pub d: u128 }
impl Clone for DalekSignature {
    #[verifier::external_body]
    fn clone(&self) -> (r: Self) ensures r == *self { unimplemented!() }
}
impl Copy for DalekSignature {}
// secp RangeProof (opaque) and grin_core OutputFeatures
#[derive(PartialEq, Eq, Structural)]
pub struct RangeProof { pub p: u8 }
impl Clone for RangeProof { #[verifier::external_body] fn clone(&self) -> (r: Self) ensures r == *self { unimplemented!() } }
impl Copy for RangeProof {}
#[derive(Clone, Copy, PartialEq, Eq, Structural)]
pub enum OutputFeatures { Plain, Coinbase }
// grin_core::core::Transaction { offset, body }: the body is an opaque value with ghost views (prelude/crypto.rs)
pub struct TransactionBody { pub t: u64 }
pub struct Transaction { pub body: TransactionBody, pub offset: BlindingFactor }
pub struct SlatepackAddress { pub hrp: String, pub pub_key: DalekPublicKey }
impl Clone for SlatepackAddress { #[verifier::external_body] fn clone(&self) -> (r: Self) ensures r == *self { unimplemented!() } }

// A-clone (L8): clone of a Vec of plain data is an equal Vec
#[verifier::external_body]
pub fn vf_clone_vec<T>(v: &Vec<T>) -> (r: Vec<T>) ensures r@ == v@ { unimplemented!() }

// ---- secp / keychain / rng stubs used by Context::new, slates
pub struct BlindingFactor { pub b: [u8; 32] }
impl Clone for BlindingFactor {
    #[verifier::external_body]
    fn clone(&self) -> (r: Self) ensures r == *self { unimplemented!() }
}
#[derive(PartialEq, Eq, Structural)]
pub struct Signature { pub a: u128, pub b: u128, pub c: u128, pub d: u128 }
impl Clone for Signature {
    #[verifier::external_body]
    fn clone(&self) -> (r: Self) ensures r == *self { unimplemented!() }
}
impl Copy for Signature {}
impl Clone for PublicKey {
    #[verifier::external_body]
    fn clone(&self) -> (r: Self) ensures r == *self { unimplemented!() }
}
impl Copy for PublicKey {}
pub struct ProofBuilder<K> { pub k: core::marker::PhantomData<K> }
impl<K> ProofBuild for ProofBuilder<K> {}
impl<K: Keychain> ProofBuilder<K> {
    #[verifier::external_body]
    pub fn new(keychain: &K) -> (r: Self) { unimplemented!() }
}
// randomness: a value is `from_os_rng` only if it was produced by the thread RNG stubs below
pub uninterp spec fn from_os_rng(k: SecretKey) -> bool;
pub struct ThreadRng { pub x: u8 }
pub struct StepRng { pub x: u64 }
#[verifier::external_body]
pub fn thread_rng() -> (r: ThreadRng) { unimplemented!() }
impl StepRng {
    #[verifier::external_body]
    pub fn new(initial: u64, increment: u64) -> (r: Self) { unimplemented!() }
}
pub trait RngLike { spec fn is_os(&self) -> bool; }
impl RngLike for ThreadRng { open spec fn is_os(&self) -> bool { true } }
impl RngLike for StepRng { open spec fn is_os(&self) -> bool { false } }
impl SecretKey {
    #[verifier::external_body]
    pub fn new<R: RngLike>(secp: &Secp256k1, rng: &mut R) -> (r: SecretKey)
        ensures old(rng).is_os() ==> from_os_rng(r) { unimplemented!() }
    #[verifier::external_body]
    pub fn from_slice(secp: &Secp256k1, data: &[u8]) -> (r: Result<SecretKey, secp::Error>)
        // 32 bytes, non-zero, first byte < 0xFF  ==> below the curve order ==> valid
        ensures (data@.len() == 32 && 0 < data@[0] < 0xFF) ==> r is Ok, r matches Ok(k) ==> k.0@ == data@ { unimplemented!() }
}
pub mod aggsig {
    pub use crate::aggsig_create_secnonce as create_secnonce;
}
#[verifier::external_body]
pub fn aggsig_create_secnonce(secp: &Secp256k1) -> (r: Result<SecretKey, secp::Error>)
    // A-crypto-total: nonce generation retries internally and does not fail
    ensures r matches Ok(k) && from_os_rng(k) { unimplemented!() }

// FeeFields::try_from(u64) (grin_core): valid range 1..=FEE_MASK (2^40-1), shift 0
#[verifier::external_body]
pub fn vf_fee_fields_try_from(fee: u64) -> (r: Result<FeeFields, transaction::Error>)
    ensures (r is Ok) == (fee != 0 && fee <= 0xFF_FFFF_FFFF), r matches Ok(f) ==> f.raw == fee
{ unimplemented!() }
impl FeeFields {
    pub open spec fn spec_fee(&self) -> int { (self.raw & 0xFF_FFFF_FFFF) as int }
    // grin_core FeeFields: zero / as_opt / is_zero / fee / new (transcribed contracts)
    #[verifier::external_body]
    pub fn zero() -> (r: FeeFields) ensures r.raw == 0 { unimplemented!() }
    #[verifier::external_body]
    pub fn is_zero(&self) -> (r: bool) ensures r == (self.raw == 0) { unimplemented!() }
    #[verifier::external_body]
    pub fn as_opt(&self) -> (r: Option<FeeFields>) ensures r == (if self.raw == 0 { None::<FeeFields> } else { Some(*self) }) { unimplemented!() }
    #[verifier::external_body]
    pub fn fee(&self) -> (r: u64) ensures r == self.raw & 0xFF_FFFF_FFFF { unimplemented!() }
    #[verifier::external_body]
    pub fn new(fee_shift: u64, fee: u64) -> (r: Result<FeeFields, transaction::Error>)
        ensures (r is Ok) == (fee != 0 && fee <= 0xFF_FFFF_FFFF && fee_shift <= 0xF),
            r matches Ok(f) ==> f.raw == ((fee_shift << 40) | fee) { unimplemented!() }
}
pub struct SecpMessage { pub b: [u8; 32] }

// ---- grin_keychain paths, addresses (opaque; functional)
// grin_keychain: an Identifier is 17 bytes = depth (u8) ++ 4 big-endian u32 child numbers; to_path/from_path
// convert between the two forms (A-path: they are mutually inverse — a bijection on the 17 bytes)
pub struct ChildNumber { pub n: u32 }
impl Clone for ChildNumber { #[verifier::external_body] fn clone(&self) -> (r: Self) ensures r == *self { unimplemented!() } }
impl Copy for ChildNumber {}
impl From<u32> for ChildNumber { #[verifier::external_body] fn from(n: u32) -> (r: ChildNumber) ensures r.n == n { unimplemented!() } }
pub struct ExtKeychainPath { pub depth: u8, pub path: [ChildNumber; 4] }
pub uninterp spec fn spec_path_depth(id: Identifier) -> u8;
pub uninterp spec fn spec_path_seq(id: Identifier) -> Seq<ChildNumber>;
pub uninterp spec fn spec_from_path(depth: u8, path: Seq<ChildNumber>) -> Identifier;
#[verifier::external_body]
pub proof fn axiom_path_roundtrip(depth: u8, path: Seq<ChildNumber>)
    requires path.len() == 4
    ensures spec_path_depth(spec_from_path(depth, path)) == depth, spec_path_seq(spec_from_path(depth, path)) == path { }
#[verifier::external_body]
pub proof fn axiom_path_len(id: Identifier) ensures spec_path_seq(id).len() == 4 { }
pub open spec fn spec_last_index(id: Identifier) -> u32 {
    if spec_path_depth(id) == 0 || spec_path_depth(id) > 4 { 0 } else { spec_path_seq(id)[spec_path_depth(id) as int - 1].n }
}
// the identifier of child `n` of `parent`: one level deeper, child number written at the new level
pub open spec fn spec_child_id(parent: Identifier, n: u32) -> Identifier {
    spec_from_path((spec_path_depth(parent) + 1) as u8, spec_path_seq(parent).update(spec_path_depth(parent) as int, ChildNumber { n }))
}
impl Identifier {
    #[verifier::external_body]
    pub fn to_path(&self) -> (r: ExtKeychainPath) ensures r.depth == spec_path_depth(*self), r.path@ == spec_path_seq(*self) { unimplemented!() }
    #[verifier::external_body]
    pub fn from_path(path: &ExtKeychainPath) -> (r: Identifier) ensures r == spec_from_path(path.depth, path.path@) { unimplemented!() }
    #[verifier::external_body]
    pub fn to_bytes(&self) -> (r: IdBytes) ensures r.id == *self { unimplemented!() }
}
pub struct IdBytes { pub id: Identifier }
pub uninterp spec fn spec_id_bytes(id: Identifier) -> Seq<u8>;
impl IdBytes {
    #[verifier::external_body]
    pub fn to_vec(&self) -> (r: Vec<u8>) ensures r@ == spec_id_bytes(self.id) { unimplemented!() }
}
impl ExtKeychainPath {
    #[verifier::external_body]
    pub fn last_path_index(&self) -> (r: u32)
        ensures r == (if self.depth == 0 || self.depth > 4 { 0u32 } else { self.path@[self.depth as int - 1].n }) { unimplemented!() }
}
impl Utc {
    #[verifier::external_body]
    pub fn now() -> (r: DateTime<Utc>) { unimplemented!() }
}
pub struct OnionV3Address { pub k: DalekPublicKey }
pub uninterp spec fn spec_ed25519_pub(sk: SecretKey) -> DalekPublicKey;
impl OnionV3Address {
    #[verifier::external_body]
    pub fn from_private(key: &[u8; 32]) -> (r: Result<OnionV3Address, util::OnionV3AddressError>)
        ensures r matches Ok(a) ==> a.k == spec_ed25519_pub(SecretKey(*key)) { unimplemented!() }
    #[verifier::external_body]
    pub fn to_ed25519(&self) -> (r: Result<DalekPublicKey, util::OnionV3AddressError>)
        ensures r matches Ok(p) ==> p == self.k { unimplemented!() }
}
impl vstd::std_specs::convert::FromSpecImpl<OnionV3AddressErrorStub> for Error { open spec fn obeys_from_spec() -> bool { true } open spec fn from_spec(e: OnionV3AddressErrorStub) -> Self { Error::OnionV3Address(e) } }
impl From<OnionV3AddressErrorStub> for Error { #[verifier::external_body] fn from(e: OnionV3AddressErrorStub) -> (r: Error) ensures r == Error::OnionV3Address(e) { unimplemented!() } }
// A-hash: Identifier's derived Hash/Eq obey the HashMap key model
#[verifier::external_body]
pub proof fn axiom_identifier_key_model() ensures vstd::std_specs::hash::obeys_key_model::<Identifier>() { }
#[verifier::external_body]
pub proof fn axiom_commitment_key_model() ensures vstd::std_specs::hash::obeys_key_model::<Commitment>() { }
// L8: `.clone()` on a tuple value
#[verifier::external_body]
pub fn vf_clone<T>(v: &T) -> (r: T) ensures r == *v { unimplemented!() }

// grin_core::global / consensus / libtx::reward (opaque; transcribed contracts)
pub mod global { pub use crate::coinbase_maturity; }
#[verifier::external_body]
pub fn coinbase_maturity() -> (r: u64) ensures r == spec_coinbase_maturity() { unimplemented!() }
pub uninterp spec fn spec_coinbase_maturity() -> u64;
pub uninterp spec fn spec_reward(fees: u64) -> u64;   // consensus::reward = REWARD.saturating_add(fees)
#[verifier::external_body]
pub fn reward(fees: u64) -> (r: u64) ensures r == spec_reward(fees) { unimplemented!() }
pub struct Output { pub features: OutputFeatures, pub commit: Commitment, pub prf: RangeProof }
pub struct TxKernel { pub k: u8 }
pub mod reward { pub use crate::reward_output as output; }
#[verifier::external_body]
pub fn reward_output<K: Keychain, B: ProofBuild>(keychain: &K, builder: &B, key_id: &Identifier, fees: u64, test_mode: bool) -> (r: Result<(Output, TxKernel), libtx::Error>) { unimplemented!() }

// big-endian 8-byte encoding of a u64 (byteorder / grin_core::ser)
pub uninterp spec fn spec_be64(v: u64) -> Seq<u8>;
pub struct Ed25519Error { pub c: u8 }
pub uninterp spec fn spec_uuid_bytes(u: Uuid) -> Seq<u8>;
impl Uuid {
    #[verifier::external_body]
    pub fn new_v4() -> (r: Uuid) { unimplemented!() }
    #[verifier::external_body]
    pub fn as_bytes(&self) -> (r: &[u8; 16]) ensures r@ == spec_uuid_bytes(*self) { unimplemented!() }
}
// L24: test-only slate id (tx.rs SLATE_COUNTER)
#[verifier::external_body]
pub fn vf_test_slate_id() -> (r: Uuid) { unimplemented!() }
// `format!("{}", uuid)` / `uuid.to_string()`: the hyphenated text form
pub uninterp spec fn spec_uuid_str(u: Uuid) -> Seq<char>;
#[verifier::external_body]
pub fn vf_uuid_string(u: &Uuid) -> (r: String) ensures r@ == spec_uuid_str(*u) { unimplemented!() }

// ---- secp static instance / commitment arithmetic used when a coinbase confirms (opaque)
pub struct SecpInstance { pub s: u8 }
pub struct SecpGuard { pub s: u8 }
#[verifier::external_body]
pub fn static_secp_instance() -> (r: SecpInstance) { unimplemented!() }
impl SecpInstance {
    #[verifier::external_body]
    pub fn lock(&self) -> (r: SecpGuard) { unimplemented!() }
}
// `&guard` where `&Secp256k1` is expected: MutexGuard deref coercion
impl core::ops::Deref for SecpGuard {
    type Target = Secp256k1;
    #[verifier::external_body]
    fn deref(&self) -> (r: &Secp256k1) { unimplemented!() }
}
impl SecpGuard {
    #[verifier::external_body]
    pub fn commit_value(&self, v: u64) -> (r: Result<Commitment, secp::Error>) { unimplemented!() }
    #[verifier::external_body]
    pub fn commit_sum(&self, pos: Vec<Commitment>, neg: Vec<Commitment>) -> (r: Result<Commitment, secp::Error>) { unimplemented!() }
}
#[verifier::external]
impl core::hash::Hash for Commitment { fn hash<H: core::hash::Hasher>(&self, state: &mut H) { } }
impl PartialEq for Commitment { #[verifier::external_body] fn eq(&self, o: &Self) -> (r: bool) { unimplemented!() } }
// derived PartialEq of the 33 commitment bytes: structural equality
impl vstd::std_specs::cmp::PartialEqSpecImpl for Commitment {
    open spec fn obeys_eq_spec() -> bool { true }
    open spec fn eq_spec(&self, other: &Self) -> bool { *self == *other }
}
impl Eq for Commitment {}
// L3: iterating a HashMap by reference, as a vector of entry references (iteration order unspecified)
pub trait VfHashMapExt<K, V> { fn vf_entries<'a>(&'a self) -> Vec<(&'a K, &'a V)>; }
impl<K, V> VfHashMapExt<K, V> for HashMap<K, V> {
    // every entry exactly once, in an unspecified order
    #[verifier::external_body]
    fn vf_entries<'a>(&'a self) -> (r: Vec<(&'a K, &'a V)>)
        ensures vstd::std_specs::hash::obeys_key_model::<K>() ==> {
            &&& forall|i: int| 0 <= i < r@.len() ==> self@.dom().contains(*(#[trigger] r@[i]).0) && self@[*r@[i].0] == *r@[i].1
            &&& forall|i: int, j: int| 0 <= i < j < r@.len() ==> *(#[trigger] r@[i]).0 != *(#[trigger] r@[j]).0
            &&& forall|k: K| #[trigger] self@.dom().contains(k) ==> exists|i: int| 0 <= i < r@.len() && *(#[trigger] r@[i]).0 == k
        },
            // A-alloc: an in-memory collection holds at most isize::MAX elements
            r@.len() <= usize::MAX / 2,
    { unimplemented!() }
}
// `confirmation_ts.clone().and_then(|t| (Utc::now() - t).to_std().ok())` — elapsed time, display only
#[verifier::external_body]
pub fn vf_elapsed_since(t: &Option<DateTime<Utc>>) -> (r: Option<Duration>) { unimplemented!() }
pub uninterp spec fn spec_parent_path(id: Identifier) -> Identifier;
// A-path: the parent path of the n-th child of p is p (ExtKeychainPath: drop the last level), for p of depth < 4
#[verifier::external_body]
pub proof fn axiom_parent_of_child(p: Identifier, n: u32)
    requires spec_path_depth(p) < 4
    ensures spec_parent_path(spec_child_id(p, n)) == p
{ }
impl Identifier {
    #[verifier::external_body]
    pub fn parent_path(&self) -> (r: Identifier) ensures r == spec_parent_path(*self) { unimplemented!() }
}
impl BlindingFactor {
    #[verifier::external_body]
    pub fn zero() -> (r: BlindingFactor) { unimplemented!() }
}
// SecretKey equality (constant-time compare in secp256k1zkp): equality of the 32 bytes
impl PartialEq for SecretKey {
    #[verifier::external_body]
    fn eq(&self, other: &Self) -> (r: bool) { unimplemented!() }
}
impl vstd::std_specs::cmp::PartialEqSpecImpl for SecretKey {
    open spec fn obeys_eq_spec() -> bool { true }
    open spec fn eq_spec(&self, other: &Self) -> bool { self.0@ == other.0@ }
}

pub struct DalekSecretKey { pub k: [u8; 32] }
impl DalekSecretKey {
    #[verifier::external_body]
    pub fn from_bytes(b: &[u8; 32]) -> (r: Result<DalekSecretKey, Ed25519Error>) ensures r matches Ok(k) ==> k.k == *b { unimplemented!() }
}
impl From<&DalekSecretKey> for DalekPublicKey {
    #[verifier::external_body]
    fn from(k: &DalekSecretKey) -> (r: DalekPublicKey) ensures r == spec_ed25519_pub(SecretKey(k.k)) { unimplemented!() }
}
