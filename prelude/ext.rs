// ===== prelude/ext.rs — TRUSTED BASE: opaque stand-ins for external crates =====
// (grin_util::secp, grin_keychain, grin_core, uuid, chrono, ed25519_dalek). Nothing is assumed
// about them beyond what each `ensures` states.

pub struct SecretKey(pub [u8; 32]);
impl Clone for SecretKey {
    #[verifier::external_body]
    fn clone(&self) -> (r: Self) ensures r == *self { unimplemented!() }
}
pub struct Secp256k1 { pub ctx: u8 }
pub struct PublicKey { pub b: [u8; 33] }
pub struct Commitment(pub [u8; 33]);
impl Clone for Commitment {
    #[verifier::external_body]
    fn clone(&self) -> (r: Self) ensures r == *self { unimplemented!() }
}
impl Copy for Commitment {}
pub mod pedersen { pub use crate::Commitment; }

#[derive(PartialEq, Eq, Structural)]
pub struct Uuid { pub v: u128 }
impl Clone for Uuid {
    #[verifier::external_body]
    fn clone(&self) -> (r: Self) ensures r == *self { unimplemented!() }
}
impl Copy for Uuid {}

// grin_core::core::FeeFields: (fee_shift << 40) | fee; view is the raw u64
pub struct FeeFields { pub raw: u64 }
impl Clone for FeeFields {
    #[verifier::external_body]
    fn clone(&self) -> (r: Self) ensures r == *self { unimplemented!() }
}
impl Copy for FeeFields {}

pub trait Keychain: Sized {
    fn secp(&self) -> &Secp256k1;
    spec fn root_hash(&self) -> Seq<u8>;
}
pub trait NodeClient: Sized { }
pub trait ProofBuild { }

// grin_core::core::amount_to_hr_string — display only
#[verifier::external_body]
pub fn amount_to_hr_string(amount: u64, truncate: bool) -> (r: String) { unimplemented!() }

// ---- grin_core::libtx::tx_fee = weight_by_iok(i,o,k) (saturating, weights 1/21/3) * accept_fee_base
pub uninterp spec fn spec_fee_base() -> int;
pub open spec fn spec_weight(i: int, o: int, k: int) -> int { i + 21 * o + 3 * k }
pub open spec fn spec_tx_fee(i: int, o: int, k: int) -> int { spec_weight(i, o, k) * spec_fee_base() }
// assumption A-fee: 0 < accept_fee_base <= 10^9 (mainnet: 500_000)
#[verifier::external_body]
pub proof fn axiom_fee_base() ensures 0 < spec_fee_base() <= 1_000_000_000 { }
#[verifier::external_body]
pub fn tx_fee(input_len: usize, output_len: usize, kernel_len: usize) -> (r: u64)
    requires input_len < 0x100_0000, output_len < 0x100_0000, kernel_len < 0x100_0000,
    ensures r == spec_tx_fee(input_len as int, output_len as int, kernel_len as int)
{ unimplemented!() }
pub proof fn lemma_tx_fee_bounds(i: int, o: int, k: int)
    requires 0 <= i < 0x100_0000, 0 <= o < 0x100_0000, 0 <= k < 0x100_0000
    ensures 0 <= spec_tx_fee(i, o, k) < 0x1000_0000_0000_0000, (i + o + k > 0 ==> spec_tx_fee(i, o, k) > 0)
{
    axiom_fee_base();
    assert(spec_weight(i, o, k) <= 25 * 0x100_0000);
    assert(spec_weight(i, o, k) * spec_fee_base() <= 25 * 0x100_0000 * 1_000_000_000) by (nonlinear_arith)
        requires 0 <= spec_weight(i, o, k) <= 25 * 0x100_0000, 0 < spec_fee_base() <= 1_000_000_000;
    assert(i + o + k > 0 ==> spec_weight(i, o, k) * spec_fee_base() > 0) by (nonlinear_arith)
        requires 0 <= spec_weight(i, o, k), i + o + k > 0 ==> spec_weight(i, o, k) > 0, 0 < spec_fee_base();
    assert(0 <= spec_weight(i, o, k) * spec_fee_base()) by (nonlinear_arith)
        requires 0 <= spec_weight(i, o, k), 0 < spec_fee_base();
}
pub proof fn lemma_tx_fee_monotone(i: int, o1: int, o2: int, k: int)
    requires 0 <= i, 0 <= o1 <= o2, 0 <= k
    ensures spec_tx_fee(i, o1, k) <= spec_tx_fee(i, o2, k)
{
    axiom_fee_base();
    assert(spec_weight(i, o1, k) * spec_fee_base() <= spec_weight(i, o2, k) * spec_fee_base()) by (nonlinear_arith)
        requires spec_weight(i, o1, k) <= spec_weight(i, o2, k), 0 < spec_fee_base();
}

// chrono / std::time / ed25519_dalek / grin_core::core::Transaction: opaque values
pub struct Utc;
pub struct DateTime<Tz> { pub secs: i64, pub tz: core::marker::PhantomData<Tz> }
pub struct Duration { pub secs: u64 }
pub struct DalekPublicKey { pub b: [u8; 32] }
impl Clone for DalekPublicKey {
    #[verifier::external_body]
    fn clone(&self) -> (r: Self) ensures r == *self { unimplemented!() }
}
impl Copy for DalekPublicKey {}
pub struct DalekSignature { pub b: [u8; 64] }
impl Clone for DalekSignature {
    #[verifier::external_body]
    fn clone(&self) -> (r: Self) ensures r == *self { unimplemented!() }
}
impl Copy for DalekSignature {}
pub struct Transaction { pub t: u64 }
pub struct InitTxArgsOpaque { pub a: u64 }

// A-clone (L8): clone of a Vec of plain data is an equal Vec
#[verifier::external_body]
pub fn vf_clone_vec<T>(v: &Vec<T>) -> (r: Vec<T>) ensures r@ == v@ { unimplemented!() }

// ---- secp / keychain / rng stubs used by Context::new, slates
pub struct BlindingFactor { pub b: [u8; 32] }
impl Clone for BlindingFactor {
    #[verifier::external_body]
    fn clone(&self) -> (r: Self) ensures r == *self { unimplemented!() }
}
pub struct Signature { pub b: [u8; 64] }
impl Clone for Signature {
    #[verifier::external_body]
    fn clone(&self) -> (r: Self) ensures r == *self { unimplemented!() }
}
impl Copy for Signature {}
impl Clone for PublicKey {
    #[verifier::external_body]
    fn clone(&self) -> (r: Self) ensures r == *self { unimplemented!() }
}
impl Copy for PublicKey {}
pub struct ProofBuilder<K> { pub k: core::marker::PhantomData<K> }
impl<K> ProofBuild for ProofBuilder<K> {}
impl<K: Keychain> ProofBuilder<K> {
    #[verifier::external_body]
    pub fn new(keychain: &K) -> (r: Self) { unimplemented!() }
}
// randomness: a value is `from_os_rng` only if it was produced by the thread RNG stubs below
pub uninterp spec fn from_os_rng(k: SecretKey) -> bool;
pub struct ThreadRng { pub x: u8 }
pub struct StepRng { pub x: u64 }
#[verifier::external_body]
pub fn thread_rng() -> (r: ThreadRng) { unimplemented!() }
impl StepRng {
    #[verifier::external_body]
    pub fn new(initial: u64, increment: u64) -> (r: Self) { unimplemented!() }
}
pub trait RngLike { spec fn is_os(&self) -> bool; }
impl RngLike for ThreadRng { open spec fn is_os(&self) -> bool { true } }
impl RngLike for StepRng { open spec fn is_os(&self) -> bool { false } }
impl SecretKey {
    #[verifier::external_body]
    pub fn new<R: RngLike>(secp: &Secp256k1, rng: &mut R) -> (r: SecretKey)
        ensures old(rng).is_os() ==> from_os_rng(r) { unimplemented!() }
    #[verifier::external_body]
    pub fn from_slice(secp: &Secp256k1, data: &[u8]) -> (r: Result<SecretKey, secp::Error>)
        // 32 bytes, non-zero, first byte < 0xFF  ==> below the curve order ==> valid
        ensures (data@.len() == 32 && 0 < data@[0] < 0xFF) ==> r is Ok { unimplemented!() }
}
pub mod aggsig {
    pub use crate::aggsig_create_secnonce as create_secnonce;
}
#[verifier::external_body]
pub fn aggsig_create_secnonce(secp: &Secp256k1) -> (r: Result<SecretKey, secp::Error>)
    // A-crypto-total: nonce generation retries internally and does not fail
    ensures r matches Ok(k) && from_os_rng(k) { unimplemented!() }

// FeeFields::try_from(u64) (grin_core): valid range 1..=FEE_MASK (2^40-1), shift 0
#[verifier::external_body]
pub fn vf_fee_fields_try_from(fee: u64) -> (r: Result<FeeFields, transaction::Error>)
    ensures (r is Ok) == (fee != 0 && fee <= 0xFF_FFFF_FFFF), r matches Ok(f) ==> f.raw == fee
{ unimplemented!() }
impl FeeFields {
    pub open spec fn spec_fee(&self) -> int { (self.raw & 0xFF_FFFF_FFFF) as int }
}
pub struct SecpMessage { pub b: [u8; 32] }
