// ===== prelude/packer.rs — TRUSTED BASE for Slatepacker::deser_slatepack (C09): the pieces it dispatches to =====
pub const HEADER: &'static str = "BEGINSLATEPACK.";
pub uninterp spec fn spec_header_len() -> usize;
// `HEADER.len()` (byte length of the constant above)
#[verifier::external_body]
pub fn vf_header_len() -> (r: usize) ensures r == spec_header_len() { unimplemented!() }
pub mod slatepack {
    #[allow(unused_imports)] use super::*;
    // armor.rs: min_size() = HEADER.len() as u64; max_size() = max tx weight * ratio + header + footer (saturating)
    #[verifier::external_body]
    pub fn min_size() -> (r: u64) ensures r == spec_header_len() as u64 { unimplemented!() }
    #[verifier::external_body]
    pub fn max_size() -> (r: u64) { unimplemented!() }
}
pub struct Utf8Error { pub c: u8 }
pub mod str {
    #[allow(unused_imports)] use super::*;
    #[verifier::external_body]
    pub fn from_utf8(b: &[u8]) -> (r: Result<&str, Utf8Error>)
        ensures r matches Ok(s) ==> s.sl_view() == b@
    { unimplemented!() }
}
#[verifier::external_body]
pub fn vf_str_eq(a: &str, b: &str) -> (r: bool) { unimplemented!() }
pub struct SlatepackArmor;
impl SlatepackArmor {
    // verified in unit slatepack_armor (total: Err instead of panic; returns only checksum-verified bytes)
    #[verifier::external_body]
    pub fn decode(data: &[u8]) -> (r: Result<Vec<u8>, Error>) { unimplemented!() }
}
// byte_ser::from_bytes::<SlatepackBin>: serde shim running SlatepackBin::read (verified in unit slatepack_bin)
pub struct ByteSerError2 { pub c: u8 }
#[verifier::external_body]
pub fn vf_from_bytes_slatepack_bin(b: &Vec<u8>) -> (r: Result<SlatepackBin, ByteSerError2>) { unimplemented!() }
pub struct FromUtf8Error { pub c: u8 }
#[verifier::external_body]
pub fn vf_string_from_utf8_vec(b: Vec<u8>) -> (r: Result<String, FromUtf8Error>) { unimplemented!() }
pub struct SerdeJsonError { pub c: u8 }
#[verifier::external_body]
pub fn vf_slatepack_from_json(s: &String) -> (r: Result<Slatepack, SerdeJsonError>) { unimplemented!() }
#[verifier::external_body]
pub fn vf_slice_to_vec_u8(s: &[u8]) -> (r: Vec<u8>) ensures r@ == s@ { unimplemented!() }
