// ===== prelude/packer.rs — TRUSTED BASE for Slatepacker::deser_slatepack (C09): the pieces it dispatches to =====
pub const HEADER: &'static str = "BEGINSLATEPACK.";
pub uninterp spec fn spec_header_len() -> usize;
pub uninterp spec fn spec_max_size() -> u64;
// `HEADER.len()` (byte length of the constant above)
#[verifier::external_body]
pub fn vf_header_len() -> (r: usize) ensures r == spec_header_len() { unimplemented!() }
pub mod slatepack {
    #[allow(unused_imports)] use super::*;
    // armor.rs: min_size() = HEADER.len() as u64; max_size() = max tx weight * ratio + header + footer (saturating)
    #[verifier::external_body]
    pub fn min_size() -> (r: u64) ensures r == spec_header_len() as u64 { unimplemented!() }
    #[verifier::external_body]
    pub fn max_size() -> (r: u64) ensures r == spec_max_size() { unimplemented!() }
}
pub struct Utf8Error { pub c: u8 }
pub mod str {
    #[allow(unused_imports)] use super::*;
    #[verifier::external_body]
    pub fn from_utf8(b: &[u8]) -> (r: Result<&str, Utf8Error>)
        ensures r matches Ok(s) ==> s.sl_view() == b@, r is Err ==> !spec_valid_utf8(b@)
    { unimplemented!() }
}
pub uninterp spec fn spec_valid_utf8(b: Seq<u8>) -> bool;
// `a == b` on &str: equality of the texts' bytes
#[verifier::external_body]
pub fn vf_str_eq(a: &str, b: &str) -> (r: bool) ensures r == (a.sl_view() == b.sl_view()) { unimplemented!() }
// the header constant is (ASCII, hence valid UTF-8) text of spec_header_len() bytes
#[verifier::external_body]
pub proof fn axiom_header_text()
    ensures HEADER.sl_view().len() == spec_header_len(), spec_valid_utf8(HEADER.sl_view()) { }
// what the pieces deser_slatepack dispatches to yield (each a total function of its input; the functions are under their own
// contracts in units slatepack_armor / slatepack_bin; serde_json and String::from_utf8 are external)
pub uninterp spec fn spec_armor_payload(data: Seq<u8>) -> Option<Seq<u8>>;
pub uninterp spec fn spec_bin_slatepack(b: Seq<u8>) -> Option<Slatepack>;
pub uninterp spec fn spec_utf8_text(b: Seq<u8>) -> Option<String>;
pub uninterp spec fn spec_json_slatepack(s: String) -> Option<Slatepack>;
pub struct SlatepackArmor;
impl SlatepackArmor {
    // verified in unit slatepack_armor (total: Err instead of panic; returns only checksum-verified bytes)
    #[verifier::external_body]
    pub fn decode(data: &[u8]) -> (r: Result<Vec<u8>, Error>)
        ensures r matches Ok(v) ==> spec_armor_payload(data@) == Some(v@), r is Err ==> spec_armor_payload(data@) is None
    { unimplemented!() }
}
// byte_ser::from_bytes::<SlatepackBin>: serde shim running SlatepackBin::read (verified in unit slatepack_bin)
pub struct ByteSerError2 { pub c: u8 }
#[verifier::external_body]
pub fn vf_from_bytes_slatepack_bin(b: &Vec<u8>) -> (r: Result<SlatepackBin, ByteSerError2>)
    ensures r matches Ok(s) ==> spec_bin_slatepack(b@) == Some(s.0), r is Err ==> spec_bin_slatepack(b@) is None
{ unimplemented!() }
pub struct FromUtf8Error { pub c: u8 }
#[verifier::external_body]
pub fn vf_string_from_utf8_vec(b: Vec<u8>) -> (r: Result<String, FromUtf8Error>)
    ensures r matches Ok(s) ==> spec_utf8_text(b@) == Some(s), r is Err ==> spec_utf8_text(b@) is None
{ unimplemented!() }
pub struct SerdeJsonError { pub c: u8 }
#[verifier::external_body]
pub fn vf_slatepack_from_json(s: &String) -> (r: Result<Slatepack, SerdeJsonError>)
    ensures r matches Ok(p) ==> spec_json_slatepack(*s) == Some(p), r is Err ==> spec_json_slatepack(*s) is None
{ unimplemented!() }
#[verifier::external_body]
pub fn vf_slice_to_vec_u8(s: &[u8]) -> (r: Vec<u8>) ensures r@ == s@ { unimplemented!() }
