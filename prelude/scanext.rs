// ===== prelude/scanext.rs — TRUSTED BASE: range-proof rewind, header versions, status channel (opaque) =====
#[derive(Clone, Copy)]
pub struct HeaderVersion(pub u16);
pub const WEEK_HEIGHT: u64 = 10080;
pub uninterp spec fn spec_valid_header_version(height: u64, v: u16) -> bool;
#[verifier::external_body]
pub fn valid_header_version(height: u64, version: HeaderVersion) -> (r: bool) ensures r == spec_valid_header_version(height, version.0) { unimplemented!() }
pub struct LegacyProofBuilder<K> { pub k: core::marker::PhantomData<K> }
pub trait RewindBuilder { spec fn is_legacy(&self) -> bool; }
impl<K> RewindBuilder for LegacyProofBuilder<K> { open spec fn is_legacy(&self) -> bool { true } }
impl<K> RewindBuilder for ProofBuilder<K> { open spec fn is_legacy(&self) -> bool { false } }
impl<K: Keychain> LegacyProofBuilder<K> {
    #[verifier::external_body]
    pub fn new(keychain: &K) -> (r: Self) { unimplemented!() }
}
// what rewinding the range proof of `commit` with this seed yields (None: not ours) — A-crypto
pub uninterp spec fn spec_rewind(legacy: bool, commit: Commitment, proof: RangeProof) -> Option<(u64, Identifier, SwitchCommitmentType)>;
pub mod proof {
    pub use crate::LegacyProofBuilder; pub use crate::ProofBuilder; pub use crate::proof_rewind as rewind;
}
#[verifier::external_body]
pub fn proof_rewind<B: RewindBuilder>(secp: &Secp256k1, b: &B, commit: Commitment, extra: Option<Vec<u8>>, proof: RangeProof)
    -> (r: Result<Option<(u64, Identifier, SwitchCommitmentType)>, Error>)
    ensures r matches Ok(v) ==> v == spec_rewind(b.is_legacy(), commit, proof) { unimplemented!() }
pub struct Sender<T> { pub t: core::marker::PhantomData<T> }
pub struct SendError { pub c: u8 }
impl<T> Sender<T> {
    #[verifier::external_body]
    pub fn send(&self, t: T) -> (r: Result<(), SendError>) { unimplemented!() }
}
pub enum StatusMessage { UpdatingOutputs(String), UpdatingTransactions(String), FullScanWarn(String), Scanning(String, u8), ScanningComplete(String), UpdateWarning(String) }

// ---- the node's output set during one scan (A-node: the node's answers are consistent with one chain view during a call)
pub type ChainOutT = (Commitment, RangeProof, bool, u64, u64);   // commit, proof, is_coinbase, height, mmr_index
// the unspent outputs whose MMR insertion index lies in [a, b], in index order
pub uninterp spec fn spec_chain_range(a: u64, b: u64) -> Seq<ChainOutT>;
#[verifier::external_body]
pub proof fn axiom_chain_range_concat(a: u64, b: u64, c: u64)
    requires a <= b + 1, b <= c, b < u64::MAX
    ensures spec_chain_range(a, b) + spec_chain_range((b + 1) as u64, c) == spec_chain_range(a, c)
{ }
#[verifier::external_body]
pub proof fn axiom_chain_range_empty(a: u64, b: u64)
    requires b + 1 == a
    ensures spec_chain_range(a, b) == Seq::<ChainOutT>::empty()
{ }
// the MMR index range of the blocks [start_height, end_height] (A-node: a function of the heights during one call)
pub uninterp spec fn spec_pmmr_range(start_height: u64, end_height: Option<u64>) -> (u64, u64);
pub trait ScanNodeClient: Sized {
    // PMMR index range of the outputs created in blocks [start_height, end_height] — any answer, may fail
    fn height_range_to_pmmr_indices(&self, start_height: u64, end_height: Option<u64>) -> (r: Result<(u64, u64), Error>)
        ensures r matches Ok(rg) ==> rg == spec_pmmr_range(start_height, end_height);
    // (last available index (capped by end), last index retrieved, the outputs with index in [start, last retrieved])
    fn get_outputs_by_pmmr_index(&self, start_index: u64, end_index: Option<u64>, max_outputs: u64) -> (r: Result<(u64, u64, Vec<ChainOutT>), Error>)
        ensures r matches Ok((highest, last, outs)) ==> outs@ == spec_chain_range(start_index, last) && start_index <= last + 1 && last < u64::MAX;
}
// L21: the f64 progress percentage (only shown in status messages)
#[verifier::external_body]
pub fn vf_progress_percent(highest_index: u64, last_retrieved_index: u64, start_index_stat: u64) -> (r: u8) ensures r <= 99 { unimplemented!() }
