// ===== prelude/scanext.rs — TRUSTED BASE: range-proof rewind, header versions, status channel (opaque) =====
#[derive(Clone, Copy)]
pub struct HeaderVersion(pub u16);
pub const WEEK_HEIGHT: u64 = 10080;
pub uninterp spec fn spec_valid_header_version(height: u64, v: u16) -> bool;
#[verifier::external_body]
pub fn valid_header_version(height: u64, version: HeaderVersion) -> (r: bool) ensures r == spec_valid_header_version(height, version.0) { unimplemented!() }
pub struct LegacyProofBuilder<K> { pub k: core::marker::PhantomData<K> }
pub trait RewindBuilder { spec fn is_legacy(&self) -> bool; }
impl<K> RewindBuilder for LegacyProofBuilder<K> { open spec fn is_legacy(&self) -> bool { true } }
impl<K> RewindBuilder for ProofBuilder<K> { open spec fn is_legacy(&self) -> bool { false } }
impl<K: Keychain> LegacyProofBuilder<K> {
    #[verifier::external_body]
    pub fn new(keychain: &K) -> (r: Self) { unimplemented!() }
}
// what rewinding the range proof of `commit` with this seed yields (None: not ours) — A-crypto
pub uninterp spec fn spec_rewind(legacy: bool, commit: Commitment, proof: RangeProof) -> Option<(u64, Identifier, SwitchCommitmentType)>;
pub mod proof {
    pub use crate::LegacyProofBuilder; pub use crate::ProofBuilder; pub use crate::proof_rewind as rewind;
}
#[verifier::external_body]
pub fn proof_rewind<B: RewindBuilder>(secp: &Secp256k1, b: &B, commit: Commitment, extra: Option<Vec<u8>>, proof: RangeProof)
    -> (r: Result<Option<(u64, Identifier, SwitchCommitmentType)>, Error>)
    ensures r matches Ok(v) ==> v == spec_rewind(b.is_legacy(), commit, proof) { unimplemented!() }
pub struct Sender<T> { pub t: core::marker::PhantomData<T> }
pub struct SendError { pub c: u8 }
impl<T> Sender<T> {
    #[verifier::external_body]
    pub fn send(&self, t: T) -> (r: Result<(), SendError>) { unimplemented!() }
}
pub enum StatusMessage { Scanning(String, u8), UpdateWarning(String), ScanningComplete(String) }
