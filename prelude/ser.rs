// ===== prelude/ser.rs — TRUSTED BASE: grin_core::ser Reader / Writer over a byte sequence =====
// A-ser: BinWriter appends big-endian encodings; BinReader consumes exactly the bytes it returns, fails (Err)
// instead of reading past the end, and decodes what the writer encoded (de ∘ be = id).
pub mod grin_ser { pub use crate::SerError as Error; }
pub mod ser { pub use crate::SerError as Error; }   // `use grin_core::ser` in slatepack/*.rs
pub uninterp spec fn spec_be16(v: u16) -> Seq<u8>;
pub uninterp spec fn spec_be32(v: u32) -> Seq<u8>;
pub uninterp spec fn spec_de16(b: Seq<u8>) -> u16;
pub uninterp spec fn spec_de32(b: Seq<u8>) -> u32;
pub uninterp spec fn spec_de64(b: Seq<u8>) -> u64;
#[verifier::external_body]
pub proof fn axiom_be_roundtrip()
    ensures
        forall|v: u16| #[trigger] spec_be16(v).len() == 2 && spec_de16(spec_be16(v)) == v,
        forall|v: u32| #[trigger] spec_be32(v).len() == 4 && spec_de32(spec_be32(v)) == v,
        forall|v: u64| #[trigger] spec_be64(v).len() == 8 && spec_de64(spec_be64(v)) == v,
{ }
pub trait Writer {
    spec fn bytes(&self) -> Seq<u8>;
    fn write_u8(&mut self, n: u8) -> (r: Result<(), SerError>)
        ensures r is Ok ==> final(self).bytes() == old(self).bytes().push(n);
    fn write_u16(&mut self, n: u16) -> (r: Result<(), SerError>)
        ensures r is Ok ==> final(self).bytes() == old(self).bytes() + spec_be16(n);
    fn write_u32(&mut self, n: u32) -> (r: Result<(), SerError>)
        ensures r is Ok ==> final(self).bytes() == old(self).bytes() + spec_be32(n);
    fn write_u64(&mut self, n: u64) -> (r: Result<(), SerError>)
        ensures r is Ok ==> final(self).bytes() == old(self).bytes() + spec_be64(n);
    fn write_fixed_bytes<B: VfSliceable<u8>>(&mut self, b: B) -> (r: Result<(), SerError>)
        ensures r is Ok ==> final(self).bytes() == old(self).bytes() + b.sl_view();
    // write_bytes: u64 length prefix, then the bytes
    fn write_bytes<B: VfSliceable<u8>>(&mut self, b: B) -> (r: Result<(), SerError>)
        ensures r is Ok ==> final(self).bytes() == old(self).bytes() + spec_be64(b.sl_view().len() as u64) + b.sl_view();
}
pub trait Reader {
    spec fn remaining(&self) -> Seq<u8>;
    fn read_u8(&mut self) -> (r: Result<u8, SerError>)
        ensures
            r matches Ok(v) ==> old(self).remaining().len() >= 1 && v == old(self).remaining()[0] && final(self).remaining() == old(self).remaining().skip(1),
            old(self).remaining().len() >= 1 ==> r is Ok,
            r is Err ==> final(self).remaining().len() <= old(self).remaining().len();
    fn read_u16(&mut self) -> (r: Result<u16, SerError>)
        ensures
            r matches Ok(v) ==> old(self).remaining().len() >= 2 && v == spec_de16(old(self).remaining().take(2)) && final(self).remaining() == old(self).remaining().skip(2),
            old(self).remaining().len() >= 2 ==> r is Ok,
            r is Err ==> final(self).remaining().len() <= old(self).remaining().len();
    fn read_u32(&mut self) -> (r: Result<u32, SerError>)
        ensures
            r matches Ok(v) ==> old(self).remaining().len() >= 4 && v == spec_de32(old(self).remaining().take(4)) && final(self).remaining() == old(self).remaining().skip(4),
            old(self).remaining().len() >= 4 ==> r is Ok,
            r is Err ==> final(self).remaining().len() <= old(self).remaining().len();
    fn read_u64(&mut self) -> (r: Result<u64, SerError>)
        ensures
            r matches Ok(v) ==> old(self).remaining().len() >= 8 && v == spec_de64(old(self).remaining().take(8)) && final(self).remaining() == old(self).remaining().skip(8),
            old(self).remaining().len() >= 8 ==> r is Ok,
            r is Err ==> final(self).remaining().len() <= old(self).remaining().len();
    // returns exactly `length` bytes or fails; never allocates more than it consumes
    fn read_fixed_bytes(&mut self, length: usize) -> (r: Result<Vec<u8>, SerError>)
        ensures
            r matches Ok(v) ==> old(self).remaining().len() >= length && v@ == old(self).remaining().take(length as int) && final(self).remaining() == old(self).remaining().skip(length as int),
            (old(self).remaining().len() >= length && length <= 100_000) ==> r is Ok,
            r is Err ==> final(self).remaining().len() <= old(self).remaining().len();
    // read_bytes_len_prefix: u64 length, then that many bytes (read_fixed_bytes' limit applies)
    fn read_bytes_len_prefix(&mut self) -> (r: Result<Vec<u8>, SerError>)
        ensures
            r matches Ok(v) ==> old(self).remaining().len() >= 8 + v@.len() && v@.len() <= 100_000 && v@.len() == spec_de64(old(self).remaining().take(8))
                && v@ == old(self).remaining().subrange(8, 8 + v@.len() as int) && final(self).remaining() == old(self).remaining().skip(8 + v@.len() as int),
            (old(self).remaining().len() >= 8 && old(self).remaining().len() >= 8 + spec_de64(old(self).remaining().take(8)) && spec_de64(old(self).remaining().take(8)) <= 100_000) ==> r is Ok,
            r is Err ==> final(self).remaining().len() <= old(self).remaining().len();
}
// Writeable / Readable of external types used inside slates: opaque fixed-format encodings
pub trait ExtCodec: Sized {
    spec fn enc(&self) -> Seq<u8>;
}
impl ExtCodec for FeeFields { uninterp spec fn enc(&self) -> Seq<u8>; }
impl ExtCodec for PublicKey { uninterp spec fn enc(&self) -> Seq<u8>; }
impl ExtCodec for Signature { uninterp spec fn enc(&self) -> Seq<u8>; }
impl ExtCodec for BlindingFactor { uninterp spec fn enc(&self) -> Seq<u8>; }
impl ExtCodec for Commitment { uninterp spec fn enc(&self) -> Seq<u8>; }
// (axiom) each external Readable decodes what its Writeable wrote, consuming exactly those bytes, and is total
pub uninterp spec fn ext_dec<T: ExtCodec>(b: Seq<u8>) -> Option<(T, int)>;
#[verifier::external_body]
pub proof fn axiom_ext_codec<T: ExtCodec>(v: T, rest: Seq<u8>)
    ensures ext_dec::<T>(v.enc() + rest) == Some((v, v.enc().len() as int)) { }
impl FeeFields {
    #[verifier::external_body]
    pub fn write<W: Writer>(&self, writer: &mut W) -> (r: Result<(), SerError>)
        ensures r is Ok ==> final(writer).bytes() == old(writer).bytes() + self.enc() { unimplemented!() }
    #[verifier::external_body]
    pub fn read<R: Reader>(reader: &mut R) -> (r: Result<FeeFields, SerError>)
        ensures
            r matches Ok(v) ==> (ext_dec::<FeeFields>(old(reader).remaining()) matches Some((v2, n)) && v2 == v && 0 <= n <= old(reader).remaining().len() && final(reader).remaining() == old(reader).remaining().skip(n)),
            ext_dec::<FeeFields>(old(reader).remaining()) is Some ==> r is Ok,
            r is Err ==> final(reader).remaining().len() <= old(reader).remaining().len(),
    { unimplemented!() }
}
impl PublicKey {
    #[verifier::external_body]
    pub fn write<W: Writer>(&self, writer: &mut W) -> (r: Result<(), SerError>)
        ensures r is Ok ==> final(writer).bytes() == old(writer).bytes() + self.enc() { unimplemented!() }
    #[verifier::external_body]
    pub fn read<R: Reader>(reader: &mut R) -> (r: Result<PublicKey, SerError>)
        ensures
            r matches Ok(v) ==> (ext_dec::<PublicKey>(old(reader).remaining()) matches Some((v2, n)) && v2 == v && 0 <= n <= old(reader).remaining().len() && final(reader).remaining() == old(reader).remaining().skip(n)),
            ext_dec::<PublicKey>(old(reader).remaining()) is Some ==> r is Ok,
            r is Err ==> final(reader).remaining().len() <= old(reader).remaining().len(),
    { unimplemented!() }
}
impl Signature {
    #[verifier::external_body]
    pub fn write<W: Writer>(&self, writer: &mut W) -> (r: Result<(), SerError>)
        ensures r is Ok ==> final(writer).bytes() == old(writer).bytes() + self.enc() { unimplemented!() }
    #[verifier::external_body]
    pub fn read<R: Reader>(reader: &mut R) -> (r: Result<Signature, SerError>)
        ensures
            r matches Ok(v) ==> (ext_dec::<Signature>(old(reader).remaining()) matches Some((v2, n)) && v2 == v && 0 <= n <= old(reader).remaining().len() && final(reader).remaining() == old(reader).remaining().skip(n)),
            ext_dec::<Signature>(old(reader).remaining()) is Some ==> r is Ok,
            r is Err ==> final(reader).remaining().len() <= old(reader).remaining().len(),
    { unimplemented!() }
}
impl BlindingFactor {
    #[verifier::external_body]
    pub fn write<W: Writer>(&self, writer: &mut W) -> (r: Result<(), SerError>)
        ensures r is Ok ==> final(writer).bytes() == old(writer).bytes() + self.enc() { unimplemented!() }
    #[verifier::external_body]
    pub fn read<R: Reader>(reader: &mut R) -> (r: Result<BlindingFactor, SerError>)
        ensures
            r matches Ok(v) ==> (ext_dec::<BlindingFactor>(old(reader).remaining()) matches Some((v2, n)) && v2 == v && 0 <= n <= old(reader).remaining().len() && final(reader).remaining() == old(reader).remaining().skip(n)),
            ext_dec::<BlindingFactor>(old(reader).remaining()) is Some ==> r is Ok,
            r is Err ==> final(reader).remaining().len() <= old(reader).remaining().len(),
    { unimplemented!() }
}
impl Commitment {
    #[verifier::external_body]
    pub fn write<W: Writer>(&self, writer: &mut W) -> (r: Result<(), SerError>)
        ensures r is Ok ==> final(writer).bytes() == old(writer).bytes() + self.enc() { unimplemented!() }
    #[verifier::external_body]
    pub fn read<R: Reader>(reader: &mut R) -> (r: Result<Commitment, SerError>)
        ensures
            r matches Ok(v) ==> (ext_dec::<Commitment>(old(reader).remaining()) matches Some((v2, n)) && v2 == v && 0 <= n <= old(reader).remaining().len() && final(reader).remaining() == old(reader).remaining().skip(n)),
            ext_dec::<Commitment>(old(reader).remaining()) is Some ==> r is Ok,
            r is Err ==> final(reader).remaining().len() <= old(reader).remaining().len(),
    { unimplemented!() }
}
// ---- other external codecs used by the V4 binary slate (opaque; total; never grow the input)
impl ExtCodec for RangeProof { uninterp spec fn enc(&self) -> Seq<u8>; }
impl ExtCodec for OutputFeatures { uninterp spec fn enc(&self) -> Seq<u8>; }
impl RangeProof {
    #[verifier::external_body]
    pub fn write<W: Writer>(&self, writer: &mut W) -> (r: Result<(), SerError>)
        ensures r is Ok ==> final(writer).bytes() == old(writer).bytes() + self.enc() { unimplemented!() }
    #[verifier::external_body]
    pub fn read<R: Reader>(reader: &mut R) -> (r: Result<RangeProof, SerError>)
        ensures
            r matches Ok(v) ==> (ext_dec::<RangeProof>(old(reader).remaining()) matches Some((v2, n)) && v2 == v && 0 <= n <= old(reader).remaining().len() && final(reader).remaining() == old(reader).remaining().skip(n)),
            ext_dec::<RangeProof>(old(reader).remaining()) is Some ==> r is Ok,
            r is Err ==> final(reader).remaining().len() <= old(reader).remaining().len(),
    { unimplemented!() }
}
impl OutputFeatures {
    #[verifier::external_body]
    pub fn write<W: Writer>(&self, writer: &mut W) -> (r: Result<(), SerError>)
        ensures r is Ok ==> final(writer).bytes() == old(writer).bytes() + self.enc() { unimplemented!() }
    #[verifier::external_body]
    pub fn read<R: Reader>(reader: &mut R) -> (r: Result<OutputFeatures, SerError>)
        ensures
            r matches Ok(v) ==> (ext_dec::<OutputFeatures>(old(reader).remaining()) matches Some((v2, n)) && v2 == v && 0 <= n <= old(reader).remaining().len() && final(reader).remaining() == old(reader).remaining().skip(n)),
            ext_dec::<OutputFeatures>(old(reader).remaining()) is Some ==> r is Ok,
            r is Err ==> final(reader).remaining().len() <= old(reader).remaining().len(),
    { unimplemented!() }
}
// ed25519_dalek / uuid byte conversions: total (Err on invalid bytes), as in the crates; decoding the bytes of a
// value gives the value back (axiom on the external crates)
pub uninterp spec fn spec_dalek_pk_from(b: Seq<u8>) -> Option<DalekPublicKey>;
pub uninterp spec fn spec_dalek_sig_bytes(s: DalekSignature) -> Seq<u8>;
pub uninterp spec fn spec_dalek_sig_from(b: Seq<u8>) -> Option<DalekSignature>;
pub uninterp spec fn spec_uuid_from(b: Seq<u8>) -> Uuid;
#[verifier::external_body]
pub proof fn axiom_byte_conversions()
    ensures
        forall|k: DalekPublicKey| #[trigger] spec_dalek_bytes(k).len() == 32 && spec_dalek_pk_from(spec_dalek_bytes(k)) == Some(k),
        forall|s: DalekSignature| #[trigger] spec_dalek_sig_bytes(s).len() == 64 && spec_dalek_sig_from(spec_dalek_sig_bytes(s)) == Some(s),
        forall|u: Uuid| #[trigger] spec_uuid_bytes(u).len() == 16 && spec_uuid_from(spec_uuid_bytes(u)) == u,
{ }
impl DalekPublicKey {
    #[verifier::external_body]
    pub fn from_bytes(b: &Vec<u8>) -> (r: Result<DalekPublicKey, Ed25519Error>)
        ensures (r matches Ok(k) ==> spec_dalek_pk_from(b@) == Some(k)), r is Err ==> spec_dalek_pk_from(b@) is None
    { unimplemented!() }
}
pub struct DalekSigErr { pub c: u8 }
impl DalekSignature {
    #[verifier::external_body]
    pub fn try_from(b: &[u8]) -> (r: Result<DalekSignature, DalekSigErr>)
        ensures (r matches Ok(s) ==> spec_dalek_sig_from(b@) == Some(s)), r is Err ==> spec_dalek_sig_from(b@) is None
    { unimplemented!() }
    #[verifier::external_body]
    pub fn to_bytes(&self) -> (r: [u8; 64]) ensures r@ == spec_dalek_sig_bytes(*self) { unimplemented!() }
}
impl Uuid {
    #[verifier::external_body]
    pub fn from_bytes(b: [u8; 16]) -> (r: Uuid) ensures r == spec_uuid_from(b@) { unimplemented!() }
}
// `[u8; N]::to_vec()`
#[verifier::external_body]
pub fn vf_array_to_vec<const N: usize>(a: &[u8; N]) -> (r: Vec<u8>) ensures r@ == a@ { unimplemented!() }
